import sys, os, random, datetime, re, math, itertools, json, collections
sys.path.insert(0, os.environ.get('SRC', '/repo/src'))
from bare_script import parse_expression, evaluate_expression, parse_script, execute_script
os.environ['TZ']='Asia/Kathmandu'; import time; time.tzset()
INDET='INDET'
def isnum(v): return isinstance(v,(int,float)) and not isinstance(v,bool)
def tname(v):
    if v is None: return 'null'
    if isinstance(v,str): return 'string'
    if isinstance(v,bool): return 'boolean'
    if isnum(v): return 'number'
    if isinstance(v,datetime.date): return 'datetime'
    if isinstance(v,dict): return 'object'
    if isinstance(v,list): return 'array'
    if callable(v): return 'function'
    return 'regex'
def ndt(v):
    if isinstance(v,datetime.datetime):
        return v.astimezone().replace(tzinfo=None) if v.tzinfo else v
    return datetime.datetime(v.year,v.month,v.day)
def truthy(v):
    t=tname(v)
    return {'null':False,'string':v!='','boolean':v,'number':v!=0,'array':len(v)!=0 if t=='array' else True}.get(t,True) if t in('null','string','boolean','number','array') else True
def cmp(a,b):
    if a is None: return 0 if b is None else -1
    if b is None: return 1
    ta,tb=tname(a),tname(b)
    if ta!=tb: return -1 if ta<tb else 1
    if ta=='datetime': a,b=ndt(a),ndt(b)
    if ta in('string','boolean','number','datetime'): return -1 if a<b else (0 if a==b else 1)
    if ta=='array':
        for x,y in zip(a,b):
            c=cmp(x,y)
            if c: return c
        return (len(a)>len(b))-(len(a)<len(b))
    if ta=='object':
        ia,ib=sorted(a.items(),key=lambda kv:kv[0]),sorted(b.items(),key=lambda kv:kv[0])
        for (k1,v1),(k2,v2) in zip(ia,ib):
            c=cmp(k1,k2) or cmp(v1,v2)
            if c: return c
        return (len(ia)>len(ib))-(len(ia)<len(ib))
    return 0
def sstr(v):
    t=tname(v)
    if t=='null': return 'null'
    if t=='string': return v
    if t=='boolean': return 'true' if v else 'false'
    if t=='number':
        if isinstance(v,int): return str(v)
        if math.isfinite(v) and v==int(v) and abs(v)<1e16: return ('-' if math.copysign(1,v)<0 and v==0 else '')+str(int(v))
        return repr(v)
    if t=='datetime':
        d=ndt(v); a=d.astimezone(); off=a.utcoffset(); s=int(off.total_seconds()); sign='+' if s>=0 else '-'; s=abs(s)
        ms=d.microsecond//1000
        return d.strftime('%Y-%m-%dT%H:%M:%S')+(('.%03d'%ms) if d.microsecond else '')+'%s%02d:%02d'%(sign,s//3600,s%3600//60)
    if t in('array','object'): return sjson(v)
    return '<function>' if t=='function' else '<regex>'
def sjson(v):
    t=tname(v)
    if t in('null','boolean','number'): return sstr(v)
    if t=='string': return json.dumps(v)
    if t=='datetime': return json.dumps(sstr(v))
    if t=='array': return '['+','.join(sjson(x) for x in v)+']'
    if t=='object': return '{'+','.join(json.dumps(k)+':'+sjson(v[k]) for k in sorted(v))+'}'
    if t=='function': return '"<function>"'
    return 'null'
def arith(f,l,r):
    try: x=f(l,r)
    except (ZeroDivisionError,OverflowError,ValueError): return INDET
    if isinstance(x,complex) or (isinstance(x,float) and not math.isfinite(x)): return INDET
    return x
def binop(op,l,r):
    tl,tr=tname(l),tname(r)
    if op=='+':
        if tl=='number' and tr=='number': return arith(lambda a,b:a+b,l,r)
        if tl=='string' or tr=='string': return (l if tl=='string' else sstr(l))+(r if tr=='string' else sstr(r))
        if tl=='datetime' and tr=='number': return arith(lambda a,b: ndt(a)+datetime.timedelta(milliseconds=b),l,r)
        if tl=='number' and tr=='datetime': return arith(lambda a,b: ndt(b)+datetime.timedelta(milliseconds=a),l,r)
        return None
    if op=='-':
        if tl=='number' and tr=='number': return arith(lambda a,b:a-b,l,r)
        if tl=='datetime' and tr=='datetime':
            d=ndt(l)-ndt(r); return float(round((d.days*86400+d.seconds)*1000+d.microseconds/1000))
        return None
    if op in('*','/','%','**'):
        if tl=='number' and tr=='number':
            if op=='%' and (l<0 or r<=0): return INDET if r==0 else ('MOD',l,r)
            return arith({'*':lambda a,b:a*b,'/':lambda a,b:a/b,'%':lambda a,b:a%b,'**':lambda a,b: math.pow(a,b)}[op],l,r)
        return None
    c=cmp(l,r)
    return {'<':c<0,'<=':c<=0,'>':c>0,'>=':c>=0,'==':c==0,'!=':c!=0}[op]
tz5=datetime.timezone(datetime.timedelta(hours=5))
POOL={'null':[None],'boolean':[True,False],'number':[0.0,-0.0,1.0,-2.5,3,1e308,5e-324,7.0,2.0],'string':['','a','b','10'],
 'datetime':[datetime.datetime(2020,1,1),datetime.date(2020,1,1),datetime.datetime(2020,1,1,5,0,tzinfo=tz5),datetime.datetime(1999,12,31,23,59,59,999000)],
 'array':[[],[1.0],[1.0,'a'],[None]],'object':[{},{'a':1.0},{'a':2.0,'b':None}],'function':[len,print],'regex':[re.compile('a'),re.compile('b')]}
vals=[v for vs in POOL.values() for v in vs]
def veq(a,b):
    if a==INDET: return b is None or (isinstance(b,float) and not math.isfinite(b))
    if isinstance(a,tuple) and a and a[0]=='MOD':
        return isnum(b) and abs(b)<=abs(a[2])
    if isinstance(a,bool) or isinstance(b,bool): return a is b
    if isnum(a) and isnum(b): return a==b or abs(a-b)<=1e-12*max(abs(a),abs(b))
    if isinstance(a,datetime.date) and isinstance(b,datetime.date): return ndt(a)==ndt(b)
    if type(a)!=type(b): return False
    return a==b
OPS=['**','*','/','%','+','-','<=','<','>=','>','==','!=']
bad=0;n=0;cells=collections.Counter()
for op in OPS:
    ex=parse_expression('x %s y'%op)
    for l in vals:
        for r in vals:
            n+=1; cells[(op,tname(l),tname(r))]+=1
            try: got=evaluate_expression(ex,{'globals':{'x':l,'y':r}})
            except Exception as e: got=('EXC',type(e).__name__)
            exp=binop(op,l,r)
            if not veq(exp,got):
                bad+=1
                if bad<12: print('BAD',repr(l),op,repr(r),'got',repr(got),'exp',repr(exp))
for v in vals:
    for uop in '!-':
        n+=1
        got=evaluate_expression(parse_expression(uop+'x'),{'globals':{'x':v}})
        exp=(not truthy(v)) if uop=='!' else (-v if isnum(v) else None)
        if not veq(exp,got): bad+=1; print('BADU',uop,repr(v),got,exp)
    for op in ('&&','||'):
        for r in vals:
            n+=1
            got=evaluate_expression(parse_expression('x %s y'%op),{'globals':{'x':v,'y':r}})
            exp=(r if truthy(v) else v) if op=='&&' else (v if truthy(v) else r)
            if got is not exp and not veq(exp,got): bad+=1; print('BADL',op,repr(v),repr(r),got,exp)
print(n,'cells',len(cells),'bad',bad)
