import sys, os, random, copy, collections
sys.path.insert(0, os.environ.get('SRC', '/repo/src'))
sys.argv=[sys.argv[0]]+sys.argv[1:]
import importlib.util
spec=importlib.util.spec_from_file_location('p1','/verif/design/proto_c01.py')
src=open('/verif/design/proto_c01.py').read().replace("main(int(sys.argv[1]), int(sys.argv[2]))","")
ns={}; exec(compile(src,'p1','exec'),ns)
from bare_script import parse_script, execute_script, BareScriptRuntimeError
Gen,ps,has_wc=ns['Gen'],ns['ps'],ns['has_wc']
rnd=random.Random(int(sys.argv[1]))
INC={'inc1.bare':"systemLog('i1')\nk = 0\nwhile k < 3:\n    k = k + 1\n    systemLog('i1 ' + k)\nendwhile\n", 'inc2.bare':"include 'inc1.bare'\nsystemLog('i2')\n"}
bad=0;n=0;stats=collections.Counter()
for it in range(int(sys.argv[2])):
    g=Gen(rnd); ctx={'vars':[],'loops':[],'infunc':False}
    prog=g.block(ctx,3,rnd.randint(2,6))
    if has_wc(prog): continue
    out=[]; ps(prog,0,out)
    # sprinkle includes and data callbacks
    extra=[]
    if rnd.random()<0.5: extra.append("include '%s'"%rnd.choice(list(INC)))
    if rnd.random()<0.5:
        extra += ["function chk(a):","    systemLog('chk')","    return a > 1","endfunction",
                  "dd = arrayNew(objectNew('a', 1), objectNew('a', 2), objectNew('a', 3))",
                  rnd.choice(["dataFilter(dd, 'chk(a)', objectNew('q', 1))","dataFilter(dd, 'chk(a)')","dataCalculatedField(dd, 'b', 'chk(a)', objectNew('q', 1))","arrayIndexOf(arrayNew(1,2,3), chk)","dataJoin(dd, dd, 'chk(a)', null, false, objectNew('q',1))"])]
    pos=rnd.randint(0,len(out)) if False else 0
    text='\n'.join(extra+out)+'\n'
    G0={'g0':rnd.choice([None,0,2,'q',[1]]),'g1':[1,2],'g2':'','g3':True,'garr':[1,2,3]}
    def run(L):
        logs=[]
        def probe(args,options): logs.append('probe'); return args[1] if len(args)>1 else None
        gl=copy.deepcopy(G0); gl['probe']=probe
        o={'globals':gl,'logFn':lambda m: logs.append('log '+m),'maxStatements':L,'fetchFn':lambda r: INC.get(r['url'])}
        try: r=('ok',repr(execute_script(parse_script(text),o)))
        except BareScriptRuntimeError as e: r=('rt',str(e))
        return r,logs,o['statementCount']
    r0,l0,N=run(0)
    if r0[0]!='ok' and 'Exceeded' in r0[1]: continue
    n+=1
    Ls=sorted(set([1,2,3,N-2,N-1,N,N+1,N+2]+[rnd.randint(1,max(1,N)) for _ in range(6)]))
    for L in Ls:
        if L<1: continue
        r,l,c=run(L)
        nlog=sum(1 for x in l if x.startswith('log '))
        if L>=N:
            ok = (r,l,c)==(r0,l0,N)
        else:
            ok = r==('rt','Exceeded maximum script statements (%d)'%L) and l==l0[:len(l)] and nlog<=L
        stats['ge' if L>=N else 'lt']+=1
        if not ok:
            bad+=1
            if bad<4: print('BAD L',L,'N',N,r,len(l),nlog,c); print(text)
print(n,'bad',bad,dict(stats))
