import sys, os, random, itertools, datetime, re, copy, collections
sys.path.insert(0, os.environ.get('SRC', '/repo/src'))
from bare_script import parse_script, execute_script
from bare_script.bare import _fetch_include, _FETCH_INCLUDE_PREFIX
from bare_script.library import SCRIPT_FUNCTIONS as F
rnd=random.Random(1)
tz=datetime.timezone(datetime.timedelta(hours=5))
pool=[None,True,False,0,0.0,1,1.0,-1,2.5,2**53,'','a','b','ab',datetime.date(2020,1,1),datetime.datetime(2020,1,1),datetime.datetime(2020,1,1,5,tzinfo=tz),datetime.datetime(2019,1,1),
 [],[None],[1],[1.0],[1,2],[[1]],{}, {'a':1},{'a':1.0},{'a':2},{'b':0},len,print,re.compile('a')]
cmpf=lambda a,b: F['systemCompare']([a,b],None)
# operators as sign tests
ops={'<':lambda c:c<0,'<=':lambda c:c<=0,'>':lambda c:c>0,'>=':lambda c:c>=0,'==':lambda c:c==0,'!=':lambda c:c!=0}
models={op:parse_script('return x %s y'%op) for op in ops}
bad=0
for a,b in itertools.product(pool,repeat=2):
    c=cmpf(a,b)
    for op,f in ops.items():
        if execute_script(models[op],{'globals':{'x':a,'y':b}}) is not f(c): bad+=1; print('op',op,a,b)
# sort / min / max / indexOf
for _ in range(20000):
    arr=[rnd.choice(pool) for _ in range(rnd.randint(0,7))]
    s=F['arraySort']([list(arr)],None)
    ok = sorted(map(id,s))==sorted(map(id,arr)) and all(cmpf(s[i],s[i+1])<=0 for i in range(len(s)-1))
    if arr:
        mn=F['mathMin'](list(arr),None); mx=F['mathMax'](list(arr),None)
        ok = ok and any(mn is x for x in arr) and all(cmpf(mn,x)<=0 for x in arr) and any(mx is x for x in arr) and all(cmpf(mx,x)>=0 for x in arr)
        v=rnd.choice([x for x in pool if not callable(x)])
        ix=F['arrayIndexOf']([list(arr),v],None); exp=next((i for i,x in enumerate(arr) if cmpf(x,v)==0),-1)
        lx=F['arrayLastIndexOf']([list(arr),v],None); lexp=next((i for i in range(len(arr)-1,-1,-1) if cmpf(arr[i],v)==0),-1)
        ok = ok and ix==exp and lx==lexp
    if not ok: bad+=1; print('consumer',arr)
    rows=[{'k':rnd.choice(pool),'j':rnd.choice([1,2]),'_i':i} for i in range(rnd.randint(0,6))]
    desc=rnd.choice([True,False])
    ds=F['dataSort']([list(rows),[['k',desc]]],None)
    ok = sorted(r['_i'] for r in ds)==list(range(len(rows)))
    for i in range(len(ds)-1):
        c=cmpf(ds[i]['k'],ds[i+1]['k']); c=-c if desc else c
        ok = ok and (c<0 or (c==0 and ds[i]['_i']<ds[i+1]['_i']))
    if not ok: bad+=1; print('dataSort',rows,desc)
print('c11 bad',bad)
# C20
o={'globals':{},'fetchFn':_fetch_include,'systemPrefix':_FETCH_INCLUDE_PREFIX}
execute_script(parse_script('include <diff.bare>'),o)
dl=o['globals']['diffLines']
import time; t0=time.time(); n=0; bad=0; cls=collections.Counter()
lists=[list(p) for k in range(0,5) for p in itertools.product('abc',repeat=k)]
for L in lists:
    for R in lists:
        res=dl([list(L),list(R)],o); n+=1
        okk=isinstance(res,list) and all(isinstance(d,dict) and d.get('type') in('Identical','Add','Remove') and isinstance(d.get('lines'),list) and d['lines'] for d in res)
        if okk:
            left=[x for d in res if d['type'] in('Identical','Remove') for x in d['lines']]
            right=[x for d in res if d['type'] in('Identical','Add') for x in d['lines']]
            okk = left==L and right==R and (L!=R or all(d['type']=='Identical' for d in res))
        if not okk:
            bad+=1
            if bad<4: print('diff BAD',L,R,res)
# strings
for _ in range(3000):
    L=[rnd.choice(['a','b','','c d']) for _ in range(rnd.randint(1,6))]; R=[rnd.choice(['a','b','','c d']) for _ in range(rnd.randint(1,6))]
    nl=rnd.choice(['\n','\r\n'])
    res=dl([nl.join(L),nl.join(R)],o); n+=1
    left=[x for d in res if d['type'] in('Identical','Remove') for x in d['lines']]
    right=[x for d in res if d['type'] in('Identical','Add') for x in d['lines']]
    if left!=L or right!=R: bad+=1; print('diff str BAD',L,R,res)
print('c20',n,'bad',bad,'%.1fs'%(time.time()-t0))
