import sys, os, random, copy, collections, re
sys.path.insert(0, os.environ.get('SRC', '/repo/src'))
src=open('/verif/design/proto_c01.py').read().replace("main(int(sys.argv[1]), int(sys.argv[2]))","")
ns={}; exec(compile(src,'p1','exec'),ns)
from bare_script import parse_script, execute_script, BareScriptRuntimeError, lint_script, validate_script
Gen,ps,has_wc=ns['Gen'],ns['ps'],ns['has_wc']
rnd=random.Random(int(sys.argv[1]))
bad=0;n=0;stats=collections.Counter()
def run(model, G0):
    logs=[]
    def probe(args,options): logs.append('probe '+str(args[0])); return args[1] if len(args)>1 else None
    gl=copy.deepcopy(G0); gl['probe']=probe
    o={'globals':gl,'logFn':lambda m: logs.append('log '+m),'maxStatements':50000}
    try: r=('ok',repr(execute_script(model,o)))
    except BareScriptRuntimeError as e: r=('rt',str(e))
    from bare_script.library import SCRIPT_FUNCTIONS
    g={k:(v if not callable(v) else '<fn>') for k,v in gl.items() if k not in SCRIPT_FUNCTIONS and k!='probe'}
    return r,logs,repr(sorted(g.items(),key=lambda kv:kv[0]))
for it in range(int(sys.argv[2])):
    g=Gen(rnd); ctx={'vars':[],'loops':[],'infunc':False}
    prog=g.block(ctx,3,rnd.randint(2,6))
    if has_wc(prog): continue
    out=[]; ps(prog,0,out)
    # sloppy insertions
    k=0
    while k<len(out):
        if rnd.random()<0.15:
            ind=re.match(r'^\s*',out[k]).group(0)
            out.insert(k, ind+rnd.choice(['x + 1','5',"'s'",'!y','(x)','lbl%d:'%k, 'q%d = 3'%k]))
            k+=1
        k+=1
    text='\n'.join(out)+'\n'
    try: model=parse_script(text)
    except Exception as e: stats['parsefail']+=1; continue
    validate_script(model)
    before=copy.deepcopy(model)
    w1=lint_script(model); w2=lint_script(model)
    if model!=before or w1!=w2: bad+=1; print('IMPURE')
    G0={'g0':rnd.choice([None,0,2,'q',[1]]),'g1':[1,2],'g2':'','g3':True,'garr':[1,2,3]}
    base=run(model,G0)
    n+=1
    for w in w1:
        m=copy.deepcopy(model); kind=None
        mm=re.match(r'Unused variable "(\w+)" defined in function "(\w+)" \(index (\d+)\)',w)
        if mm:
            kind='unusedvar'; v,f=mm.group(1),mm.group(2)
            for s in m['statements']:
                if 'function' in s and s['function']['name']==f:
                    for fs in s['function']['statements']:
                        if 'expr' in fs and fs['expr'].get('name')==v: fs['expr']['name']=v+'__renamed'
        mm=re.match(r'Unused argument "(\w+)" of function "(\w+)" \(index (\d+)\)',w)
        if mm:
            kind='unusedarg'; v,f,ix=mm.group(1),mm.group(2),int(mm.group(3))
            fn=m['statements'][ix]['function']; assert fn['name']==f
            fn['args']=[a if a!=v else v+'__renamed' for a in fn['args']]
            for fs in fn['statements']:
                if 'expr' in fs and fs['expr'].get('name')==v: fs['expr']['name']=v+'__renamed'
        mm=re.match(r'Pointless global statement \(index (\d+)\)',w)
        if mm: kind='pointless-g'; del m['statements'][int(mm.group(1))]
        mm=re.match(r'Pointless statement in function "(\w+)" \(index (\d+)\)',w)
        if mm:
            kind='pointless-f'
            for s in m['statements']:
                if 'function' in s and s['function']['name']==mm.group(1): del s['function']['statements'][int(mm.group(2))]; break
        mm=re.match(r'Unused global label "(\w+)" \(index (\d+)\)',w)
        if mm: kind='label-g'; assert m['statements'][int(mm.group(2))]=={'label':mm.group(1)}; del m['statements'][int(mm.group(2))]
        mm=re.match(r'Unused label "(\w+)" in function "(\w+)" \(index (\d+)\)',w)
        if mm:
            kind='label-f'
            for s in m['statements']:
                if 'function' in s and s['function']['name']==mm.group(2): del s['function']['statements'][int(mm.group(3))]; break
        if kind is None: stats['other:'+w.split('"')[0][:30]]+=1; continue
        stats[kind]+=1
        r=run(m,G0)
        if r!=base:
            bad+=1
            if bad<4: print('BAD',w); print(text); print(base[0],r[0]); print(base[2]); print(r[2])
print(n,'bad',bad,dict(stats))
