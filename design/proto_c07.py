import sys, os, itertools, collections, time
sys.path.insert(0, os.environ.get('SRC', '/repo/src'))
from bare_script import parse_script, validate_script, lint_script, execute_script, BareScriptRuntimeError
# shape := list of constructs; construct := (kind, jumps, children-per-branch)
KINDS=['if','ifelse','ifelif','ifelifelse','while','for','forix']
NBR={'if':1,'ifelse':2,'ifelif':2,'ifelifelse':3,'while':1,'for':1,'forix':1}
def shapes(depth, inloop):
    # yields lists of source lines (relative indent) for one construct nest
    if depth==0:
        yield ['x = x + 1']
        if inloop:
            yield ['break']; yield ['continue']; yield ['if c: ','    break','endif','x = 1'] if False else ['x = 2','continue']
        return
    for kind in KINDS:
        loop = kind in('while','for','forix')
        nb=NBR[kind]
        # choose which branch holds the nested child; others get a leaf
        for which in range(nb):
            for child in shapes(depth-1, inloop or loop):
                for sib in (None,'pre','post'):
                    brs=[]
                    for b in range(nb):
                        body=list(child) if b==which else ['y = y + 1']
                        brs.append(body)
                    lines=[]
                    if kind.startswith('if'):
                        heads=['if pp(1):']+{'if':[],'ifelse':['else:'],'ifelif':['elif pp(2):'],'ifelifelse':['elif pp(2):','else:']}[kind]
                        for h,b in zip(heads,brs): lines.append(h); lines+= ['    '+l for l in b]
                        lines.append('endif')
                    elif kind=='while':
                        lines=['while pp(3) && k < 3:','    k = k + 1']+['    '+l for l in brs[0]]+['endwhile']
                    else:
                        lines=['for v%s in arr:'%(', i' if kind=='forix' else '')]+['    '+l for l in brs[0]]+['endfor']
                    if sib=='pre': lines=['if pp(0):','    z = 1','endif']+lines
                    if sib=='post': lines=lines+['while k < 0:','    continue','endwhile']
                    yield lines
def labels_ok(stmts, errs, scope):
    defs=collections.Counter(s['label'] for s in stmts if 'label' in s)
    uses=collections.Counter(s['jump']['label'] for s in stmts if 'jump' in s)
    for l,c in defs.items():
        if c!=1: errs.append((scope,'dup',l))
        if l not in uses: errs.append((scope,'unused',l))
    for l in uses:
        if l not in defs: errs.append((scope,'unknown',l))
    for s in stmts:
        if 'function' in s: labels_ok(s['function']['statements'], errs, s['function']['name'])
maxd=int(sys.argv[1]); n=0; bad=0; t0=time.time()
for d in range(1,maxd+1):
    for lines in shapes(d, False):
        for place in ('global','func','twofunc'):
            if place=='global': src='\n'.join(lines)
            elif place=='func': src='\n'.join(['function ff(arr, k, x, y):']+['    '+l for l in lines]+['endfunction','ff(arr, 0, 0, 0)'])
            else: src='\n'.join(['function f1(arr, k, x, y):']+['    '+l for l in lines]+['endfunction']+lines+['function f2(arr, k, x, y):']+['    '+l for l in lines]+['endfunction','f1(arr,0,0,0)','f2(arr,0,0,0)'])
            n+=1
            try:
                m=parse_script(src); validate_script(m)
            except Exception as e:
                bad+=1; print('PARSE/VALIDATE',e,src) if bad<3 else None; continue
            errs=[]; labels_ok(m['statements'],errs,'global')
            lw=[w for w in lint_script(m) if 'label' in w.lower()]
            rt=None
            for pv in (True,False):
                cnt=[0]
                def p(args,o): cnt[0]+=1; return pv if cnt[0]%2 else not pv
                try: execute_script(m,{'globals':{'pp':p,'arr':[1,2,3],'k':0,'x':0,'y':0},'maxStatements':5000})
                except BareScriptRuntimeError as e:
                    if 'Unknown jump' in str(e): rt=str(e)
            if errs or lw or rt:
                bad+=1
                if bad<4: print('BAD',errs,lw,rt); print(src)
print(n,'bad',bad,'%.1fs'%(time.time()-t0))
