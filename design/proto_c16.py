import sys, os, random, time, datetime, re
from zoneinfo import ZoneInfo
sys.path.insert(0, os.environ.get('SRC', '/repo/src'))
from bare_script.library import SCRIPT_FUNCTIONS as F
random.seed(int(sys.argv[1]) if len(sys.argv)>1 else 1)
ZONES=['UTC','America/New_York','Europe/London','Asia/Kolkata','Asia/Kathmandu','Australia/Lord_Howe','Pacific/Chatham','Etc/GMT+12']
UTC=datetime.timezone.utc
ISO=re.compile(r'^\d{4}-\d\d-\d\dT\d\d:\d\d:\d\d(\.\d{3})?[+-]\d\d:\d\d$')
stats={}
def st(k): stats[k]=stats.get(k,0)+1
bad=0
for it in range(60000):
    tz=random.choice(ZONES); os.environ['TZ']=tz; time.tzset(); Z=ZoneInfo(tz)
    if random.random()<0.5:
        # near a transition: pick a random year and scan? cheap: random instant in a DST-ish month
        y=random.randint(1950,2100); d=datetime.datetime(y,random.choice([3,4,9,10,11]),random.randint(1,28),random.randint(0,4),random.choice([0,15,29,30,45,59]),random.randint(0,59),random.choice([0,1000,999000,123456]))
    else:
        y=random.choice([random.randint(100,9000),random.randint(1900,2100)])
        d=datetime.datetime(y,random.randint(1,12),random.randint(1,28),random.randint(0,23),random.randint(0,59),random.randint(0,59),random.choice([0,500000,999999,1000]))
    # existence & whole-minute offset via zoneinfo
    a0=d.replace(tzinfo=Z); a1=d.replace(tzinfo=Z,fold=1)
    exists = any(a.astimezone(UTC).astimezone(Z).replace(tzinfo=None)==d for a in (a0,a1))
    off=a0.utcoffset()
    whole = off.total_seconds()%60==0 and a1.utcoffset().total_seconds()%60==0
    if not exists: st('nonexistent'); continue
    if not whole: st('lmt'); continue
    try:
        s=F['datetimeISOFormat']([d],None)
    except Exception as e:
        st('fmt-exc:'+type(e).__name__); bad+=1; 
        if bad<5: print(tz,d,'fmt exc',e)
        continue
    ok=bool(ISO.match(s))
    inst=datetime.datetime.fromisoformat(s)
    dm=d.replace(microsecond=d.microsecond//1000*1000)
    # same instant as d in zone (either fold)
    cand=[a.astimezone(UTC).replace(microsecond=a.microsecond//1000*1000) for a in (a0,a1)]
    ok = ok and inst.astimezone(UTC) in cand
    p=F['datetimeISOParse']([s],None)
    ok = ok and p==dm
    st('ok' if ok else 'BAD')
    if not ok:
        bad+=1
        if bad<8: print(tz,d,s,p,inst.astimezone(UTC),cand)
print(stats)
