import sys, os, random, datetime, time, math
sys.path.insert(0, os.environ.get('SRC', '/repo/src'))
from bare_script.library import SCRIPT_FUNCTIONS as F
from bare_script.value import value_string
rnd=random.Random(int(sys.argv[1]))
def q(s):
    if s=='' : return s
    if any(c in s for c in ',"') or s!=s.strip() : return '"'+s.replace('"','""')+'"'
    return s
SAFE='qxz #;:!?()[]{}<>=&|*%$@^~`'
def rstr():
    body=''.join(rnd.choice('abqxz ,"\'.-0123456789:T+'+SAFE) for _ in range(rnd.randint(0,8)))
    return body+rnd.choice('qxz')+''.join(rnd.choice('abqxz ,".') for _ in range(rnd.randint(0,3)))
def rnum():
    return rnd.choice([0.0,1.0,-2.5,1e21,1e-7,123456789.125,float(rnd.randint(-1000,1000)), rnd.random()*1e6])
def rdt():
    return datetime.datetime(rnd.randint(1971,2090),rnd.randint(1,12),rnd.randint(1,28),rnd.randint(0,23),rnd.randint(0,59),rnd.randint(0,59),rnd.choice([0,123000,999000]))
bad=0;n=0
for it in range(int(sys.argv[2])):
    os.environ['TZ']=rnd.choice(['UTC','Asia/Kathmandu','Etc/GMT+12','Asia/Kolkata']); time.tzset()
    ncol=rnd.randint(1,5); types=[rnd.choice(['num','bool','dt','date','str','datelike']) for _ in range(ncol)]
    names=['c%d'%i for i in range(ncol)]
    rows=[]
    for _ in range(rnd.randint(1,8)):
        r=[]
        for t in types:
            if rnd.random()<0.15 and t!='datelike': r.append(None)
            elif t=='num': r.append(rnum())
            elif t=='bool': r.append(rnd.choice([True,False]))
            elif t=='dt': r.append(rdt())
            elif t=='date': d=rdt(); r.append(datetime.datetime(d.year,d.month,d.day))
            elif t=='str': r.append(rstr())
            else: r.append(rnd.choice(['2024-02-30','2023-13-01','2021-00-10','2024-02-30T10:00:00Z','2024-01-01T25:00:00+00:00','0000-01-01']))
        rows.append(r)
    hasval=[any(r[i] is not None for r in rows) for i in range(ncol)]
    def cell(v,t,i=None):
        if v is None: return rnd.choice(['null','']) if (t not in ('str','datelike') and ncol>1 and hasval[i]) else 'null'
        if t=='date' and rnd.random()<0.5: return v.date().isoformat()
        if t in('str','datelike'): return q(v)
        return value_string(v)
    lines=[','.join(names)]+[(','+rnd.choice(['',' '])).join(cell(v,t,i) for i,(v,t) in enumerate(zip(r,types))) for r in rows]
    text='\n'.join(lines)
    parts=[text] if rnd.random()<0.5 else ['\n'.join(lines[:2]), '\n'.join(lines[2:])]
    try: got=F['dataParseCSV'](parts,None)
    except Exception as e: got=('EXC',type(e).__name__,str(e))
    n+=1
    exp=[dict(zip(names,r)) for r in rows]
    if got!=exp:
        bad+=1
        if bad<5: print('BAD',types); print(text); print(got); print(exp)
print(n,'bad',bad)
