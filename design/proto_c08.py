import sys, os, itertools, copy, collections, time
sys.path.insert(0, os.environ.get('SRC', '/repo/src'))
from bare_script import execute_script, BareScriptRuntimeError, validate_script
V=lambda n:{'variable':n}
def log(tag): return {'expr':{'expr':{'function':{'name':'systemLog','args':[{'string':tag}]}}}}
INC={'expr':{'name':'n','expr':{'binary':{'op':'+','left':V('n'),'right':{'number':1}}}}}
COND={'binary':{'op':'<','left':V('n'),'right':{'number':2}}}
FBODIES=[
 [log('f0'),{'jump':{'label':'A'}},log('f1'),{'label':'A'},{'return':{'expr':{'string':'r'}}}],
 [{'label':'A'},INC,log('f'),{'jump':{'label':'A','expr':COND}}],
 [{'jump':{'label':'B'}},log('f')],   # dangling inside function (B only maybe in caller)
]
SYMS=['log','inc','jA','jB','cA','cB','lA','lB','ret','retn','fn0','fn1','fn2','call']
def build(seq):
    out=[]
    for i,s in enumerate(seq):
        if s=='log': out.append(log('m%d'%i))
        elif s=='inc': out.append(copy.deepcopy(INC))
        elif s in('jA','jB'): out.append({'jump':{'label':s[1]}})
        elif s in('cA','cB'): out.append({'jump':{'label':s[1],'expr':copy.deepcopy(COND)}})
        elif s in('lA','lB'): out.append({'label':s[1]})
        elif s=='ret': out.append({'return':{}})
        elif s=='retn': out.append({'return':{'expr':V('n')}})
        elif s.startswith('fn'): out.append({'function':{'name':'ff','statements':copy.deepcopy(FBODIES[int(s[2])])}})
        elif s=='call': out.append({'expr':{'name':'r','expr':{'function':{'name':'ff','args':[]}}}})
    return {'statements':out}
class RT(Exception): pass
class Ref:
    def __init__(self,n0,limit): self.g={'n':n0}; self.logs=[]; self.count=0; self.limit=limit
    def ev(self,e,loc):
        k,=e.keys()
        if k=='number': return e[k]
        if k=='string': return e[k]
        if k=='variable':
            if loc is not None and e[k] in loc: return loc[e[k]]
            return self.g.get(e[k])
        if k=='binary':
            l=self.ev(e[k]['left'],loc); r=self.ev(e[k]['right'],loc)
            if e[k]['op']=='+': return l+r if isinstance(l,(int,float)) and isinstance(r,(int,float)) else None
            if e[k]['op']=='<': return (l is None and r is not None) or (l is not None and r is not None and l<r)
        if k=='function':
            nm=e[k]['name']; args=[self.ev(a,loc) for a in e[k].get('args',[])]
            if nm=='systemLog': self.logs.append(args[0]); return None
            f=(loc or {}).get(nm, self.g.get(nm))
            if f is None: raise RT('Undefined function "%s"'%nm)
            return self.run(f['statements'],{})
    def run(self,stmts,loc):
        pc=0
        while pc<len(stmts):
            s=stmts[pc]; k,=s.keys()
            self.count+=1
            if self.limit and self.count>self.limit: raise RT('Exceeded maximum script statements (%d)'%self.limit)
            if k=='expr':
                v=self.ev(s[k]['expr'],loc)
                if 'name' in s[k]:
                    if loc is not None: loc[s[k]['name']]=v
                    else: self.g[s[k]['name']]=v
            elif k=='jump':
                if 'expr' not in s[k] or self.ev(s[k]['expr'],loc):
                    tgt=[i for i,t in enumerate(stmts) if t.get('label')==s[k]['label']]
                    if not tgt: raise RT('Unknown jump label "%s"'%s[k]['label'])
                    pc=tgt[0]
            elif k=='return':
                return self.ev(s[k]['expr'],loc) if 'expr' in s[k] else None
            elif k=='function': self.g[s[k]['name']]=s[k]
            pc+=1
        return None
LIMIT=40
def run_impl(model,n0):
    logs=[]; o={'globals':{'n':n0},'logFn':logs.append,'maxStatements':LIMIT}
    try: r=('ok',execute_script(model,o))
    except BareScriptRuntimeError as e: r=('rt',str(e))
    g={k:(v if not callable(v) else '<fn>') for k,v in o['globals'].items() if k in('n','r','ff')}
    return r,logs,o['statementCount'],g
def run_ref(model,n0):
    rf=Ref(n0,LIMIT)
    try: r=('ok',rf.run(model['statements'],None))
    except RT as e: r=('rt',str(e))
    g={k:(v if not isinstance(v,dict) else '<fn>') for k,v in rf.g.items() if k in('n','r','ff')}
    return r,rf.logs,rf.count,g
maxlen=int(sys.argv[1]); bad=0; n=0; t0=time.time(); cls=collections.Counter()
for L in range(1,maxlen+1):
    for seq in itertools.product(SYMS,repeat=L):
        if sum(1 for s in seq if s.startswith('fn'))>1: continue
        model=build(seq)
        before=copy.deepcopy(model)
        for n0 in (0,5):
            a=run_impl(model,n0); b=run_ref(model,n0); n+=1
            if a!=b or model!=before or run_impl(model,n0)!=a:
                bad+=1
                if bad<5: print('BAD',seq,n0,a,b)
            cls[a[0][0] if a[0][0]=='ok' else a[0][1][:12]]+=1
print(n,'bad',bad,dict(cls),'%.1fs'%(time.time()-t0))
