import sys, os, random, collections
sys.path.insert(0, os.environ.get('SRC', '/repo/src'))
from bare_script import parse_expression, BareScriptParserError, validate_expression
rnd=random.Random(int(sys.argv[1]))
BIN=['**','*','/','%','+','-','<=','<','>=','>','==','!=','&&','||']
PREC={'**':7,'*':6,'/':6,'%':6,'+':5,'-':5,'<=':4,'<':4,'>=':4,'>':4,'==':3,'!=':3,'&&':2,'||':1}
# tokens: ('num',text,val) ('str',text,val) ('id',name) ('br',text,name) ('op',op) ('!',) ('(',) (')',) (',',) ('junk',c)
def rtok():
    k=rnd.random()
    if k<0.16:
        t=rnd.choice(['0','7','12','3.5','1.','10e+2','2.5e-3','007']); return ('num',t,float(t))
    if k<0.24:
        body=rnd.choice(['','a','a b',"it\\'s",'x\\\\y','"q"','#','a,b)'])
        return ('str',"'"+body+"'", body.replace("\\'","'").replace('\\\\','\\'))
    if k<0.28:
        body=rnd.choice(['','a','a b','say \\"hi\\"',"it's"]); return ('str','"'+body+'"', body.replace('\\"','"'))
    if k<0.42: return ('id',rnd.choice(['a','b','xy','foo','true','null','if','_u','a1']))
    if k<0.46:
        n=rnd.choice(['a b','x.y','a\\]b','1st']); return ('br','['+n+']',n.replace('\\]',']'))
    if k<0.68: return ('op',rnd.choice(BIN))
    if k<0.73: return ('!',)
    if k<0.83: return ('(',)
    if k<0.93: return (')',)
    if k<0.98: return (',',)
    return ('junk',rnd.choice('@$#?;:~`'))
class Rej(Exception): pass
def ref_parse(toks):
    pos=[0]
    def peek(): return toks[pos[0]] if pos[0]<len(toks) else None
    def unary():
        t=peek()
        if t is None: raise Rej()
        if t[0]=='(':
            pos[0]+=1; e=binary(1)
            if peek() is None or peek()[0]!=')': raise Rej()
            pos[0]+=1; return {'group':e}
        if t[0]=='!' or (t[0]=='op' and t[1]=='-'):
            pos[0]+=1; return {'unary':{'op':'!' if t[0]=='!' else '-','expr':unary()}}
        if t[0]=='id' and pos[0]+1<len(toks) and toks[pos[0]+1][0]=='(' and len(t[1])>=2:
            pos[0]+=2; args=[]
            while True:
                if peek() is not None and peek()[0]==')': pos[0]+=1; break
                if args:
                    if peek() is None or peek()[0]!=',': raise Rej()
                    pos[0]+=1
                args.append(binary(1))
            return {'function':{'name':t[1],'args':args}}
        if t[0]=='num': pos[0]+=1; return {'number':t[2]}
        if t[0]=='str': pos[0]+=1; return {'string':t[2]}
        if t[0]=='id': pos[0]+=1; return {'variable':t[1]}
        if t[0]=='br': pos[0]+=1; return {'variable':t[2]}
        raise Rej()
    def binary(minp):
        left=unary()
        while peek() is not None and peek()[0]=='op' and PREC[peek()[1]]>=minp:
            op=peek()[1]; pos[0]+=1
            right=binary(PREC[op]+1)
            left={'binary':{'op':op,'left':left,'right':right}}
        return left
    e=binary(1)
    if pos[0]!=len(toks): raise Rej()
    return e
def text(toks):
    out=[]
    for i,t in enumerate(toks):
        s={'op':lambda: t[1],'!':lambda:'!','(':lambda:'(',')':lambda:')',',':lambda:','}.get(t[0],lambda:t[1])()
        out.append(s)
    return ' '.join(out)
def mutate_valid():
    # build valid then maybe mutate
    def ge(d):
        k=rnd.random()
        if d<=0 or k<0.3:
            while True:
                t=rtok()
                if t[0] in('num','str','id','br'): return [t]
        if k<0.6: return ge(d-1)+[('op',rnd.choice(BIN))]+ge(d-1)
        if k<0.7: return [('(',)]+ge(d-1)+[(')',)]
        if k<0.8: return [rnd.choice([('!',),('op','-')])]+ge(d-1)
        args=[]
        for i in range(rnd.randint(0,3)):
            if i: args.append((',',))
            args+=ge(d-1)
        return [('id',rnd.choice(['foo','if','max']))]+[('(',)]+args+[(')',)]
    t=ge(4)
    if rnd.random()<0.5 and t:
        i=rnd.randrange(len(t)); m=rnd.random()
        if m<0.4: del t[i]
        elif m<0.8: t.insert(i,rtok())
        else: t[i]=rtok()
    return t
stats=collections.Counter(); bad=0
for it in range(int(sys.argv[2])):
    toks=[rtok() for _ in range(rnd.randint(1,8))] if rnd.random()<0.3 else mutate_valid()
    if not toks: continue
    tx=text(toks)
    try: exp=ref_parse(toks)
    except Rej: exp=None
    except RecursionError: continue
    try: got=parse_expression(tx); validate_expression(got)
    except BareScriptParserError: got=None
    except Exception as e: got=('EXC',type(e).__name__)
    stats['accept' if exp is not None else 'reject']+=1
    if got!=exp:
        bad+=1
        if bad<10: print('BAD',repr(tx),'\n   got',got,'\n   exp',exp)
print(dict(stats),'bad',bad)
