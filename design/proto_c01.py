# Throwaway prototype: structured program generator + big-step reference vs implementation
import sys, os, random, json, collections
sys.path.insert(0, os.environ.get('SRC', '/repo/src'))
from bare_script import parse_script, execute_script, BareScriptRuntimeError

# ---------- AST ----------
# expr: ('num',n) ('str',s) ('var',name) ('bin',op,l,r) ('not',e) ('call',name,[args]) ('probe',tag,e)
# stmt: ('assign',name,e) ('log',e) ('if',[(cond,body)...],else_body|None) ('while',ctr,bound,cond,body)
#       ('for',val,idx|None,arr_expr,body) ('break',) ('continue',) ('return',e|None) ('func',name,params,last,body) ('callstmt',name,args)

class Gen:
    def __init__(self, rnd):
        self.r = rnd; self.nctr = 0; self.nprobe = 0; self.funcs = []; self.nfor = 0
    def probe(self, e):
        self.nprobe += 1
        return ('probe', 'p%d' % self.nprobe, e)
    def expr(self, vars_, d=2, kind=None):
        r = self.r
        k = r.random()
        if d <= 0 or k < 0.35:
            c = r.random()
            if c < 0.4 and vars_: return ('var', r.choice(vars_))
            if c < 0.75: return ('num', r.choice([0, 1, 2, 3, 5, 7]))
            if c < 0.85: return ('str', r.choice(['', 'a', 'bc']))
            return ('var', r.choice(['true', 'false', 'null', 'g0', 'g1', 'g2', 'g3']))
        if k < 0.75:
            op = r.choice(['+', '-', '*', '<', '<=', '>', '>=', '==', '!=', '&&', '||', '%'])
            l = self.expr(vars_, d-1)
            rr = self.expr(vars_, d-1) if op != '%' else ('num', r.choice([2, 3]))
            return ('bin', op, l, rr)
        if k < 0.82: return ('not', self.expr(vars_, d-1))
        if k < 0.92 and self.funcs:
            f = r.choice(self.funcs)
            return ('call', f[0], [self.expr(vars_, d-1) for _ in range(r.randint(0, 4))])
        return self.probe(self.expr(vars_, d-1))
    def cond(self, vars_):
        e = self.expr(vars_, 2)
        return self.probe(e) if self.r.random() < 0.7 else e
    def block(self, ctx, depth, n=None):
        out = []
        for _ in range(n if n is not None else self.r.randint(1, 3)):
            out.append(self.stmt(ctx, depth))
        return out
    def stmt(self, ctx, depth):
        r = self.r
        vars_ = ctx['vars']
        k = r.random()
        if depth <= 0 or k < 0.3:
            c = r.random()
            if c < 0.4:
                name = r.choice(['x', 'y', 'z', 'w'])
                if name not in vars_: vars_.append(name)
                return ('assign', name, self.expr(vars_, 2))
            if c < 0.7: return ('log', self.expr(vars_, 2))
            if c < 0.8 and ctx['loops']: return (r.choice(['break', 'continue']),)
            if c < 0.86: return ('return', self.expr(vars_, 1) if r.random() < 0.7 else None)
            if self.funcs:
                f = r.choice(self.funcs)
                return ('callstmt', f[0], [self.expr(vars_, 1) for _ in range(r.randint(0, 4))])
            return ('log', self.expr(vars_, 1))
        if k < 0.55:
            nb = r.randint(1, 3)
            branches = [(self.cond(vars_), self.block(ctx, depth-1)) for _ in range(nb)]
            els = self.block(ctx, depth-1) if r.random() < 0.5 else None
            return ('if', branches, els)
        if k < 0.75:
            self.nctr += 1
            ctr = 'c%d' % self.nctr
            ctx2 = dict(ctx, loops=ctx['loops'] + ['while'])
            return ('while', ctr, r.randint(1, 4), self.cond(vars_), self.block(ctx2, depth-1))
        if k < 0.93:
            self.nfor += 1
            val = r.choice(['v', 'u'])
            idx = ('ix%d' % self.nfor) if r.random() < 0.5 else None
            arr = r.choice([('call', 'arrayNew', [self.expr(vars_, 1) for _ in range(r.randint(0, 4))]), ('var', 'g1'), ('var', 'garr'), self.probe(('var', 'garr'))])
            ctx2 = dict(ctx, loops=ctx['loops'] + ['for'], vars=vars_ + [val] + ([idx] if idx else []))
            body = self.block(ctx2, depth-1)
            if val not in vars_: vars_.append(val)
            return ('for', val, idx, arr, body)
        if not ctx['infunc'] and len(self.funcs) < 3:
            name = 'fn%d' % len(self.funcs)
            params = ['a', 'b', 'c'][:r.randint(0, 3)]
            last = bool(params) and r.random() < 0.3
            fctx = {'vars': list(params), 'loops': [], 'infunc': True}
            self.funcs.append((name, params, last))  # allow recursion? no: body generated after registration -> recursion possible; guard by depth counter absent => avoid
            self.funcs.pop()
            body = self.block(fctx, min(depth-1, 2), r.randint(1, 4))
            self.funcs.append((name, params, last))
            return ('func', name, params, last, body)
        return ('log', self.expr(vars_, 2))

# ---------- printer ----------
def pe(e):
    t = e[0]
    if t == 'num': return str(e[1])
    if t == 'str': return "'" + e[1] + "'"
    if t == 'var': return e[1]
    if t == 'bin': return '(' + pe(e[2]) + ' ' + e[1] + ' ' + pe(e[3]) + ')'
    if t == 'not': return '!' + pe(e[1]) if e[1][0] != 'not' else '!(' + pe(e[1]) + ')'
    if t == 'call': return e[1] + '(' + ', '.join(pe(a) for a in e[2]) + ')'
    if t == 'probe': return "probe('" + e[1] + "', " + pe(e[2]) + ')'
def ps(stmts, ind, out):
    sp = '    ' * ind
    for s in stmts:
        t = s[0]
        if t == 'assign': out.append(sp + s[1] + ' = ' + pe(s[2]))
        elif t == 'log': out.append(sp + 'systemLog(' + pe(s[1]) + ')')
        elif t == 'callstmt': out.append(sp + s[1] + '(' + ', '.join(pe(a) for a in s[2]) + ')')
        elif t == 'if':
            for i, (c, b) in enumerate(s[1]):
                out.append(sp + ('if ' if i == 0 else 'elif ') + pe(c) + ':'); ps(b, ind+1, out)
            if s[2] is not None:
                out.append(sp + 'else:'); ps(s[2], ind+1, out)
            out.append(sp + 'endif')
        elif t == 'while':
            out.append(sp + s[1] + ' = 0')
            out.append(sp + 'while (' + s[1] + ' < ' + str(s[2]) + ') && ' + pe(s[3]) + ':')
            out.append(sp + '    ' + s[1] + ' = ' + s[1] + ' + 1')
            ps(s[4], ind+1, out); out.append(sp + 'endwhile')
        elif t == 'for':
            out.append(sp + 'for ' + s[1] + (', ' + s[2] if s[2] else '') + ' in ' + pe(s[3]) + ':')
            ps(s[4], ind+1, out); out.append(sp + 'endfor')
        elif t in ('break', 'continue'): out.append(sp + t)
        elif t == 'return': out.append(sp + 'return' + (' ' + pe(s[1]) if s[1] is not None else ''))
        elif t == 'func':
            out.append(sp + 'function ' + s[1] + '(' + ', '.join(s[2]) + ('...' if s[3] else '') + '):')
            ps(s[4], ind+1, out); out.append(sp + 'endfunction')

# ---------- reference ----------
class Brk(Exception): pass
class Cnt(Exception): pass
class Ret(Exception):
    def __init__(self, v): self.v = v
class RtErr(Exception): pass
INDET = object()

def isnum(v): return isinstance(v, (int, float)) and not isinstance(v, bool)
def truthy(v):
    if v is None: return False
    if isinstance(v, str): return v != ''
    if isinstance(v, bool): return v
    if isnum(v): return v != 0
    if isinstance(v, list): return len(v) != 0
    return True
def tname(v):
    if v is None: return 'null'
    if isinstance(v, str): return 'string'
    if isinstance(v, bool): return 'boolean'
    if isnum(v): return 'number'
    if isinstance(v, dict): return 'object'
    if isinstance(v, list): return 'array'
    if callable(v): return 'function'
    return 'regex'
def cmp(a, b):
    if a is None: return 0 if b is None else -1
    if b is None: return 1
    ta, tb = tname(a), tname(b)
    if ta != tb: return -1 if ta < tb else 1
    if ta in ('string', 'boolean', 'number'): return -1 if a < b else (0 if a == b else 1)
    if ta == 'array':
        for x, y in zip(a, b):
            c = cmp(x, y)
            if c: return c
        return -1 if len(a) < len(b) else (0 if len(a) == len(b) else 1)
    if ta == 'object':
        ia, ib = sorted(a.items()), sorted(b.items())
        for (k1, v1), (k2, v2) in zip(ia, ib):
            c = cmp(k1, k2) or cmp(v1, v2)
            if c: return c
        return -1 if len(ia) < len(ib) else (0 if len(ia) == len(ib) else 1)
    return 0
def sstr(v):
    if v is None: return 'null'
    if isinstance(v, str): return v
    if isinstance(v, bool): return 'true' if v else 'false'
    if isinstance(v, int): return str(v)
    if isinstance(v, float): return str(int(v)) if v == int(v) and abs(v) < 1e16 else repr(v)
    if isinstance(v, (list, dict)): return sjson(v)
    if callable(v): return '<function>'
    return '<regex>'
def sjson(v):
    if v is None: return 'null'
    if isinstance(v, bool): return 'true' if v else 'false'
    if isnum(v): return sstr(v)
    if isinstance(v, str): return json.dumps(v)
    if isinstance(v, list): return '[' + ','.join(sjson(x) for x in v) + ']'
    if isinstance(v, dict): return '{' + ','.join(json.dumps(k) + ':' + sjson(v[k]) for k in sorted(v)) + '}'
    if callable(v): return '"<function>"'
    return 'null'

class Ref:
    def __init__(self, globals_, log, defect_while_continue=False):
        self.g = globals_; self.log = log; self.fuel = 20000; self.dwc = defect_while_continue
    def ev(self, e, loc):
        t = e[0]
        if t == 'num': return float(e[1])
        if t == 'str': return e[1]
        if t == 'var':
            n = e[1]
            if n == 'null': return None
            if n == 'true': return True
            if n == 'false': return False
            if loc is not None and n in loc: return loc[n]
            return self.g.get(n)
        if t == 'probe':
            v = self.ev(e[2], loc); self.log.append('probe ' + e[1]); return v
        if t == 'not': return not truthy(self.ev(e[1], loc))
        if t == 'call':
            if e[1] == 'arrayNew': return [self.ev(a, loc) for a in e[2]]
            args = [self.ev(a, loc) for a in e[2]]
            f = loc.get(e[1]) if (loc is not None and e[1] in loc) else self.g.get(e[1])
            if f is None: raise RtErr('Undefined function')
            if not (isinstance(f, tuple) and f[0] == 'func'): return None  # non-function call -> null
            return self.callf(f, args)
        if t == 'bin':
            op = e[1]
            l = self.ev(e[2], loc)
            if op == '&&': return l if not truthy(l) else self.ev(e[3], loc)
            if op == '||': return l if truthy(l) else self.ev(e[3], loc)
            r = self.ev(e[3], loc)
            if op == '+':
                if isnum(l) and isnum(r): return l + r
                if isinstance(l, str) and isinstance(r, str): return l + r
                if isinstance(l, str): return l + sstr(r)
                if isinstance(r, str): return sstr(l) + r
                return None
            if op == '-': return l - r if isnum(l) and isnum(r) else None
            if op == '*': return l * r if isnum(l) and isnum(r) else None
            if op == '%': return l % r if isnum(l) and isnum(r) else None
            c = cmp(l, r)
            return {'<': c < 0, '<=': c <= 0, '>': c > 0, '>=': c >= 0, '==': c == 0, '!=': c != 0}[op]
    def callf(self, f, args):
        _, name, params, last, body = f
        loc = {}
        for i, p in enumerate(params):
            if last and i == len(params) - 1: loc[p] = list(args[i:])
            else: loc[p] = args[i] if i < len(args) else None
        try:
            self.run(body, loc)
        except Ret as r:
            return r.v
        return None
    def run(self, stmts, loc):
        for s in stmts:
            self.fuel -= 1
            if self.fuel < 0: raise RtErr('fuel')
            t = s[0]
            if t == 'assign':
                v = self.ev(s[2], loc)
                if loc is not None: loc[s[1]] = v
                else: self.g[s[1]] = v
            elif t == 'log': self.log.append('log ' + sstr(self.ev(s[1], loc)))
            elif t == 'callstmt': self.ev(('call', s[1], s[2]), loc)
            elif t == 'if':
                done = False
                for c, b in s[1]:
                    if truthy(self.ev(c, loc)):
                        self.run(b, loc); done = True; break
                if not done and s[2] is not None: self.run(s[2], loc)
            elif t == 'while':
                self.run([('assign', s[1], ('num', 0))], loc)
                cond = ('bin', '&&', ('bin', '<', ('var', s[1]), ('num', s[2])), s[3])
                body = [('assign', s[1], ('bin', '+', ('var', s[1]), ('num', 1)))] + s[4]
                if truthy(self.ev(cond, loc)):
                    skip = False
                    while True:
                        try:
                            self.run(body, loc)
                        except Brk: break
                        except Cnt:
                            if self.dwc: continue
                        if not truthy(self.ev(cond, loc)): break
            elif t == 'for':
                arr = self.ev(s[3], loc)
                if not isinstance(arr, list): arr = []
                n = len(arr)
                for i in range(n):
                    tgt = loc if loc is not None else self.g
                    if s[2]: tgt[s[2]] = i
                    tgt[s[1]] = arr[i] if i < len(arr) else None
                    try: self.run(s[4], loc)
                    except Brk: break
                    except Cnt: pass
            elif t == 'break': raise Brk()
            elif t == 'continue': raise Cnt()
            elif t == 'return': raise Ret(self.ev(s[1], loc) if s[1] is not None else None)
            elif t == 'func': self.g[s[1]] = ('func', s[1], s[2], s[3], s[4])

def has_wc(stmts, loops=()):
    for s in stmts:
        t = s[0]
        if t == 'continue' and loops and loops[-1] == 'while': return True
        if t == 'if':
            if any(has_wc(b, loops) for _, b in s[1]) or (s[2] and has_wc(s[2], loops)): return True
        if t == 'while' and has_wc(s[4], loops + ('while',)): return True
        if t == 'for' and has_wc(s[4], loops + ('for',)): return True
        if t == 'func' and has_wc(s[4], ()): return True
    return False

def norm(v):
    if isinstance(v, tuple) and v and v[0] == 'func': return '<function>'
    if callable(v): return '<function>'
    if isinstance(v, bool) or v is None or isinstance(v, str): return v
    if isinstance(v, (int, float)): return float(v)
    if isinstance(v, list): return [norm(x) for x in v]
    if isinstance(v, dict): return {k: norm(x) for k, x in v.items()}
    return repr(v)

def main(seed, n):
    rnd = random.Random(seed)
    stats = collections.Counter(); shown = 0
    for it in range(n):
        g = Gen(rnd)
        ctx = {'vars': [], 'loops': [], 'infunc': False}
        prog = g.block(ctx, 3, rnd.randint(2, 6))
        out = []; ps(prog, 0, out); src = '\n'.join(out) + '\n'
        gpool = [None, True, False, 0, 2, '', 'q', [], [1, 'a'], {}, {'k': 1}]
        G0 = {'g0': rnd.choice(gpool), 'g1': rnd.choice(gpool), 'g2': rnd.choice(gpool), 'g3': rnd.choice(gpool), 'garr': [1, 2, 3][:rnd.randint(0, 3)]}
        import copy
        # implementation
        ilog = []
        def probe(args, options): ilog.append('probe ' + args[0]); return args[1] if len(args) > 1 else None
        ig = copy.deepcopy(G0); ig['probe'] = probe
        try:
            model = parse_script(src)
        except Exception as e:
            print('PARSE FAIL', e, src); return
        try:
            ires = ('ok', norm(execute_script(model, {'globals': ig, 'logFn': lambda m: ilog.append('log ' + m), 'maxStatements': 200000})))
        except BareScriptRuntimeError as e:
            ires = ('rt', str(e).split('"')[0].strip())
        except Exception as e:
            ires = ('EXC', type(e).__name__ + str(e))
        wc = has_wc(prog)
        rlog = []
        rg = copy.deepcopy(G0)
        ref = Ref(rg, rlog, defect_while_continue=wc and os.environ.get('DWC', '1') == '1')
        try:
            try:
                ref.run(prog, None); rres = ('ok', None)
            except Ret as r: rres = ('ok', norm(r.v))
            except (Brk, Cnt): rres = ('BUG', None)
        except RtErr as e:
            if str(e) == 'fuel': stats['ref-fuel'] += 1; continue
            rres = ('rt', 'Undefined function')
        skipnames = lambda d: {k: norm(v) for k, v in d.items() if not k.startswith('__bareScript') and not k.startswith('ix') and k != 'probe' and not (callable(v) and k not in G0 and not k.startswith('fn'))}
        from bare_script.library import SCRIPT_FUNCTIONS
        ig2 = {k: v for k, v in ig.items() if k not in SCRIPT_FUNCTIONS}
        ok = (ires == rres) and ilog == rlog and skipnames(ig2) == skipnames(rg)
        stats['wc' if wc else 'plain'] += 1
        stats[ires[0]] += 1
        if not ok:
            stats['MISMATCH' + ('-wc' if wc else '')] += 1
            if shown < 3:
                shown += 1
                print('---- MISMATCH seed', seed, 'it', it, 'wc', wc); print(src); print('G0', G0); print('impl', ires, ilog[-8:]); print('ref ', rres, rlog[-8:])
                a, b = skipnames(ig2), skipnames(rg)
                print('gdiff', {k: (a.get(k), b.get(k)) for k in set(a) | set(b) if a.get(k) != b.get(k)})
    print(dict(stats))
main(int(sys.argv[1]), int(sys.argv[2]))
