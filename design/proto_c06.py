# Throwaway prototype: targeted '@' fault injection, checks position oracle soundness
import sys, os, re, random, itertools
sys.path.insert(0, os.environ.get('SRC', '/repo/src'))
from bare_script import parse_script, BareScriptParserError
random.seed(1)
def toks(n):
    # expression token list with unique identifiers
    out=[]; 
    for i in range(n):
        out.append('v%03d'%i)
        if i<n-1: out.append(random.choice(['+','-','*','&&','||','==','<']))
    # sprinkle a call and a group
    return out
KINDS={
 'assign': lambda e: ('x = ', e, ''),
 'expr': lambda e: ('', e, ''),
 'return': lambda e: ('return ', e, ''),
 'jumpif': lambda e: ('jumpif (', e, ') lbl'),
 'if': lambda e: ('if ', e, ':'),
 'elif': lambda e: ('elif ', e, ':'),
 'while': lambda e: ('while ', e, ':'),
 'for': lambda e: ('for v in ', e, ':'),
}
bad=0; n=0
for kind,mk in KINDS.items():
  for ntok in (1,2,3,8,30,60):
    t=toks(ntok)
    for gap in range(len(t)+1):
      for wrap in ('plain','group','call'):
        tt=list(t); tt.insert(gap,'@')
        e=' '.join(tt)
        if wrap=='group': e='( '+e+' )'
        if wrap=='call': e='foo( 1, '+e+' )'
        pre,ex,post=mk(e)
        for indent in ('','    '):
          line=indent+pre+ex+post
          prefix=['# c','','y = 1'][:random.randint(0,3)]
          lines=list(prefix)
          if kind=='elif': lines.append('if 1:')
          lines.append(line)
          if kind in ('if','elif'): lines.append('endif')
          if kind=='while': lines.append('endwhile')
          if kind=='for': lines.append('endfor')
          if kind=='jumpif': lines.append('lbl:')
          text='\n'.join(lines)
          n+=1
          try:
            parse_script(text, 7)
            print('NOERR', repr(line)); bad+=1; continue
          except BareScriptParserError as err:
            exp_ln=7+len(prefix)+(1 if kind=='elif' else 0)
            at=line.index('@')
            es=len(indent+pre); 
            col=err.column_number
            ok = err.line_number==exp_ln and err.line==line and 1<=col<=len(line)+1
            # column within expression span and not right of '@'
            rest=line[col-1:]; p=col-1+(len(rest)-len(rest.lstrip()))
            ok2 = p>=es and (p==at or (line[p]=='(' and p<at))
            # caret check
            msg=str(err).split('\n')
            caret=msg[2].index('^'); shown=msg[1]
            if len(line)<=120: ok3 = shown==line and caret==col-1
            else:
                core=shown[4:] if shown.startswith('... ') else shown
                core=core[:-4] if core.endswith(' ...') else core
                off=line.find(core); assert line.count(core)==1
                ok3 = off + (caret - (4 if shown.startswith('... ') else 0)) == col-1
            if not (ok and ok2 and ok3):
                bad+=1
                if bad<15: print(kind,wrap,repr(line[:80]),'ln',err.line_number,exp_ln,'col',col,'at',at+1,'es',es,ok,ok2,ok3, repr(err.line[:40]))
print(n,'bad',bad)
