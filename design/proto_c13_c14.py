import sys, os, random, json, itertools, struct, math
sys.path.insert(0, os.environ.get('SRC', '/repo/src'))
from bare_script import parse_script, execute_script, parse_expression
from bare_script.library import SCRIPT_FUNCTIONS as F
random.seed(1)
ALPHA='a.0,]}'
strs=[''.join(p) for k in range(5) for p in itertools.product(ALPHA,repeat=k)]
def eq(a,b):
    if isinstance(a,bool) or isinstance(b,bool): return a is b
    if isinstance(a,(int,float)) and isinstance(b,(int,float)): return a==b
    if type(a)!=type(b): return False
    if isinstance(a,list): return len(a)==len(b) and all(eq(x,y) for x,y in zip(a,b))
    if isinstance(a,dict): return a.keys()==b.keys() and all(eq(a[k],b[k]) for k in a)
    return a==b
bad=0;n=0
def chk(v,indent=None):
    global bad,n
    n+=1
    t=F['jsonStringify']([v]+([float(indent)] if indent else []),None)
    try:
        r1=json.loads(t); r2=F['jsonParse']([t],None)
        ok=eq(r1,v) and eq(r2,v)
    except Exception as e:
        ok=False
    if not ok:
        bad+=1
        if bad<6: print('BAD',repr(v)[:80],repr(t)[:80])
for s in strs:
    for emb in (s,[s],[1.0,s,2.0],{s:1.0},{'k':s},{s:s},[s,1.0]):
        chk(emb); chk(emb,2)
def rs():
    return ''.join(random.choice(ALPHA+'"\\/ \n\té\U0001F600\ud800') for _ in range(random.randint(0,6)))
def rnum():
    k=random.random()
    if k<0.3: return float(random.randint(-5,5))
    if k<0.5: return random.choice([1e15,1e16,1e21,-0.0,0.5,1.25,2**53,1e-7,5e-324,1.7976931348623157e308, 123456789012345680.0])
    x=struct.unpack('<d',struct.pack('<Q',random.getrandbits(64)))[0]
    return x if math.isfinite(x) else 1.5
def rv(d):
    k=random.random()
    if d<=0 or k<0.5:
        return random.choice([None,True,False,rnum(),rnum(),rs(),rs()])
    if k<0.75: return [rv(d-1) for _ in range(random.randint(0,4))]
    return {rs(): rv(d-1) for _ in range(random.randint(0,4))}
for _ in range(30000):
    chk(rv(4), random.choice([None,None,1,2,4,8]))
print(n,'bad',bad)
# C13
bad=0
for _ in range(200000):
    x=rnum()
    t=F['stringNew']([x],None)
    if F['numberParseFloat']([t],None)!=x: bad+=1; print('rt',x,t)
    if x>=0 and not (x==0 and math.copysign(1,x)<0):
        try: e=parse_expression(t)
        except Exception as ex: e=str(ex)
        if e!={'number':x}: bad+=1; print('lit',x,t,e)
    if x==int(x) and abs(x)<1e16 and not t.lstrip('-').isdigit(): bad+=1; print('int',x,t)
print('c13 bad',bad)
