# Throwaway prototype: layout rewrites on shipped scripts
import sys, os, re, random, glob
sys.path.insert(0, os.environ.get('SRC', '/repo/src'))
from bare_script import parse_script
random.seed(int(sys.argv[1]) if len(sys.argv)>1 else 1)
def gaps(line):
    # indices of whitespace chars outside quotes
    out=[]; q=None; i=0
    while i<len(line):
        c=line[i]
        if q:
            if c=='\\' and i+1<len(line) and line[i+1] in (q,'\\'): i+=2; continue
            if c==q: q=None
        else:
            if c in '\'"': q=c
            elif c in ' \t': out.append(i)
        i+=1
    return out if q is None else []
def rewrite(text):
    lines=re.split(r'\r?\n', text)
    out=[]
    i=0
    while i<len(lines):
        ln=lines[i]
        # keep existing continued runs intact
        if re.search(r'\\\s*$', ln) and not re.match(r'^\s*(#.*)?$', ln):
            run=[ln]
            while True:
                i+=1; run.append(lines[i])
                if re.match(r'^\s*(#.*)?$', lines[i]): continue
                if not re.search(r'\\\s*$', lines[i]): break
            out.extend(run); i+=1; continue
        i+=1
        if re.match(r'^\s*(#.*)?$', ln) or re.match(r'^\s*include\s', ln):
            out.append(ln); continue
        g=gaps(ln)
        cuts=sorted(random.sample(g, min(len(g), random.choice([0,0,1,2,3]))))
        parts=[]; prev=0
        for c in cuts:
            parts.append(ln[prev:c]); prev=c
        parts.append(ln[prev:])
        for k,p in enumerate(parts):
            last = k==len(parts)-1
            p2 = (random.choice(['','  ','\t'])+p.strip() if (k>0 or random.random()<0.3) else p)
            if k==0 and p.strip()=='' : p2=p
            out.append(p2 + ('' if last else random.choice([' \\','\\',' \\  '])) + ('' if not last else random.choice(['','  '])))
            if not last and random.random()<0.3: out.append(random.choice(['','# comment \\','   ']))
        if random.random()<0.2: out.append(random.choice(['','# c']))
    return random.choice(['\n','\r\n']).join(out)
bad=0; n=0
for f in sorted(glob.glob(os.environ.get('SRC','/repo/src')[:-4]+'/src/bare_script/include/*.bare'))+['/repo/perf/test.bare']:
    text=open(f).read(); base=parse_script(text)
    for _ in range(30):
        t2=rewrite(text); n+=1
        try: m=parse_script(t2)
        except Exception as e: m=('EXC',str(e)[:200])
        if m!=base:
            bad+=1
            if bad<4: print(f, m if isinstance(m,tuple) else 'model differs')
        # chunking
        ls=t2.split('\n'); k=random.randint(0,len(ls)); 
        try: m2=parse_script(['\n'.join(ls[:k]), '\n'.join(ls[k:])]) if 0<k<len(ls) else m
        except Exception as e: m2=('EXC',str(e)[:100])
        if m2!=base and m==base: bad+=1; print('chunk differs', f)
print(n,'bad',bad)
