import sys, os, random, copy, collections, re, urllib.parse, datetime, functools
sys.path.insert(0, os.environ.get('SRC', '/repo/src'))
src=open('/verif/design/proto_c01.py').read().replace("main(int(sys.argv[1]), int(sys.argv[2]))","")
ns={}; exec(compile(src,'p1','exec'),ns); isnum=ns['isnum']
_t0=ns['tname']; _s0=ns['sstr']; _c0=ns['cmp']
def tname(v): return 'datetime' if isinstance(v,datetime.date) else _t0(v)
ns['tname']=tname
def sstr(v):
    if isinstance(v,datetime.datetime): return v.strftime('%Y-%m-%dT%H:%M:%S')+'+00:00'
    if isinstance(v,list): return '['+','.join(sj(x) for x in v)+']'
    return _s0(v)
def sj(v):
    import json
    if isinstance(v,datetime.datetime): return json.dumps(sstr(v))
    if isinstance(v,list): return '['+','.join(sj(x) for x in v)+']'
    if isinstance(v,dict): return '{'+','.join(json.dumps(k)+':'+sj(v[k]) for k in sorted(v))+'}'
    return ns['sjson'](v)
def cmp(a,b):
    if isinstance(a,datetime.date) and isinstance(b,datetime.date): return -1 if a<b else (0 if a==b else 1)
    if isinstance(a,list) and isinstance(b,list):
        for x,y in zip(a,b):
            c=cmp(x,y)
            if c: return c
        return -1 if len(a)<len(b) else (0 if len(a)==len(b) else 1)
    if isinstance(a,dict) and isinstance(b,dict):
        ia,ib=sorted(a.items(),key=lambda kv:kv[0]),sorted(b.items(),key=lambda kv:kv[0])
        for (k1,v1),(k2,v2) in zip(ia,ib):
            c=cmp(k1,k2) or cmp(v1,v2)
            if c: return c
        return -1 if len(ia)<len(ib) else (0 if len(ia)==len(ib) else 1)
    if a is None or b is None: return _c0(a,b)
    ta,tb=tname(a),tname(b)
    if ta!=tb: return -1 if ta<tb else 1
    return _c0(a,b)
from bare_script.library import SCRIPT_FUNCTIONS as F
from bare_script.value import ValueArgsError
rnd=random.Random(int(sys.argv[1]))
FAIL=object(); UNSPEC=object()
def isint(v,lo=0): return isnum(v) and v==int(v) and v>=lo
# ---- reference models: return (result) or FAIL ; mutate args in place
def m_arrayCopy(a): 
    if len(a)!=1 or not isinstance(a[0],list): return FAIL
    return list(a[0])
def m_arrayDelete(a):
    if len(a)!=2 or not isinstance(a[0],list) or not isint(a[1]) or a[1]>=len(a[0]): return FAIL
    del a[0][int(a[1])]; return UNSPEC
def m_arrayExtend(a):
    if len(a)!=2 or not isinstance(a[0],list) or not isinstance(a[1],list): return FAIL
    a[0].extend(list(a[1])); return a[0]
def m_arrayGet(a):
    if len(a)!=2 or not isinstance(a[0],list) or not isint(a[1]) or a[1]>=len(a[0]): return FAIL
    return a[0][int(a[1])]
def m_arrayIndexOf(a):
    if len(a) not in (1,2,3) or not isinstance(a[0],list): return FAIL
    if len(a)==1: a=a+[None]
    if callable(a[1]): return UNSPEC
    ix=a[2] if len(a)==3 else 0
    if not isint(ix) or ix>=len(a[0]): return FAIL
    for i in range(int(ix),len(a[0])):
        if cmp(a[0][i],a[1])==0: return i
    return -1
def m_arrayLastIndexOf(a):
    if len(a) not in (1,2,3) or not isinstance(a[0],list): return FAIL
    if len(a)==1: a=a+[None]
    if callable(a[1]): return UNSPEC
    ix=a[2] if len(a)==3 and a[2] is not None else len(a[0])-1
    if len(a)==3 and a[2] is not None and not isint(ix): return FAIL
    if ix>=len(a[0]): return FAIL
    for i in range(int(ix),-1,-1):
        if cmp(a[0][i],a[1])==0: return i
    return -1
def m_arrayJoin(a):
    if len(a)!=2 or not isinstance(a[0],list) or not isinstance(a[1],str): return FAIL
    return a[1].join(sstr(x) for x in a[0])
def m_arrayLength(a):
    if len(a)!=1 or not isinstance(a[0],list): return FAIL
    return len(a[0])
def m_arrayNew(a): return list(a)
def m_arrayNewSize(a):
    if len(a)>2: return FAIL
    size=a[0] if len(a)>=1 else 0
    if not isint(size): return FAIL
    v=a[1] if len(a)==2 else 0
    return [v]*int(size)
def m_arrayPop(a):
    if len(a)!=1 or not isinstance(a[0],list) or not a[0]: return FAIL
    return a[0].pop()
def m_arrayPush(a):
    if len(a)<1 or not isinstance(a[0],list): return FAIL
    a[0].extend(a[1:]); return a[0]
def m_arraySet(a):
    if len(a) not in (2,3) or not isinstance(a[0],list) or not isint(a[1]) or a[1]>=len(a[0]): return FAIL
    v=a[2] if len(a)==3 else None
    a[0][int(a[1])]=v; return v
def m_arrayShift(a):
    if len(a)!=1 or not isinstance(a[0],list) or not a[0]: return FAIL
    return a[0].pop(0)
def m_arraySlice(a):
    if len(a) not in (1,2,3) or not isinstance(a[0],list): return FAIL
    st=a[1] if len(a)>=2 else 0
    en=a[2] if len(a)==3 and a[2] is not None else len(a[0])
    if not isint(st) or not isint(en) or st>len(a[0]) or en>len(a[0]): return FAIL
    return a[0][int(st):int(en)]
def m_arraySort(a):
    if len(a) not in (1,2) or not isinstance(a[0],list): return FAIL
    if len(a)==2 and a[1] is not None: return UNSPEC
    a[0].sort(key=functools.cmp_to_key(cmp)); return a[0]
def m_objectAssign(a):
    if len(a)!=2 or not isinstance(a[0],dict) or not isinstance(a[1],dict): return FAIL
    a[0].update(a[1]); return a[0]
def m_objectCopy(a):
    if len(a)!=1 or not isinstance(a[0],dict): return FAIL
    return dict(a[0])
def m_objectDelete(a):
    if len(a)!=2 or not isinstance(a[0],dict) or not isinstance(a[1],str): return FAIL
    a[0].pop(a[1],None); return None
def m_objectGet(a):
    if len(a) not in (2,3) or not isinstance(a[0],dict) or not isinstance(a[1],str): return ('FAILDEF', a[2] if len(a)>=3 else None)
    return a[0].get(a[1], a[2] if len(a)==3 else None)
def m_objectHas(a):
    if len(a)!=2 or not isinstance(a[0],dict) or not isinstance(a[1],str): return FAIL
    return a[1] in a[0]
def m_objectKeys(a):
    if len(a)!=1 or not isinstance(a[0],dict): return FAIL
    return list(a[0].keys())
def m_objectNew(a):
    o={}
    for i in range(0,len(a),2):
        if not isinstance(a[i],str): return FAIL
        o[a[i]]=a[i+1] if i+1<len(a) else None
    return o
def m_objectSet(a):
    if len(a) not in (2,3) or not isinstance(a[0],dict) or not isinstance(a[1],str): return FAIL
    v=a[2] if len(a)==3 else None
    a[0][a[1]]=v; return v
def S(n): # n string args exactly
    def deco(f):
        def g(a):
            if len(a)!=n or not all(isinstance(x,str) for x in a): return FAIL
            return f(*a)
        return g
    return deco
def m_stringCharCodeAt(a):
    if len(a)!=2 or not isinstance(a[0],str) or not isint(a[1]) or a[1]>=len(a[0]): return FAIL
    return ord(a[0][int(a[1])])
m_stringEndsWith=S(2)(lambda s,t: s.endswith(t))
m_stringStartsWith=S(2)(lambda s,t: s.startswith(t))
def m_stringFromCharCode(a):
    if not all(isint(x) for x in a): return FAIL
    if any(x>0x10ffff for x in a): return FAIL
    return ''.join(chr(int(x)) for x in a)
def m_stringIndexOf(a):
    if len(a) not in (2,3) or not isinstance(a[0],str) or not isinstance(a[1],str): return FAIL
    ix=a[2] if len(a)==3 else 0
    if not isint(ix) or ix>=len(a[0]): return FAIL if not (isint(ix) and a[1]=='' ) else UNSPEC
    if a[1]=='': return UNSPEC
    return a[0].find(a[1],int(ix))
def m_stringLastIndexOf(a):
    if len(a) not in (2,3) or not isinstance(a[0],str) or not isinstance(a[1],str): return FAIL
    if a[1]=='' or a[0]=='': return UNSPEC
    ix=a[2] if len(a)==3 and a[2] is not None else len(a[0])-1
    if not isint(ix) or ix>=len(a[0]): return FAIL
    for i in range(min(int(ix),len(a[0])-len(a[1])),-1,-1):
        if a[0][i:i+len(a[1])]==a[1]: return i
    return -1
def m_stringLength(a):
    if len(a)!=1 or not isinstance(a[0],str): return FAIL
    return len(a[0])
m_stringLower=S(1)(lambda s: s.lower()); m_stringUpper=S(1)(lambda s: s.upper()); m_stringTrim=S(1)(lambda s: s.strip())
def m_stringNew(a):
    if len(a)>1: return FAIL
    return sstr(a[0] if a else None)
def m_stringRepeat(a):
    if len(a)!=2 or not isinstance(a[0],str) or not isint(a[1]): return FAIL
    return a[0]*int(a[1])
m_stringReplace=S(3)(lambda s,a,b: s.replace(a,b) if a!='' else UNSPEC)
def m_stringSlice(a):
    if len(a) not in (2,3) or not isinstance(a[0],str): return FAIL
    st=a[1]; en=a[2] if len(a)==3 and a[2] is not None else len(a[0])
    if not isint(st) or not isint(en) or st>len(a[0]) or en>len(a[0]): return FAIL
    return a[0][int(st):int(en)]
m_stringSplit=S(2)(lambda s,sep: s.split(sep) if sep!='' else FAIL)
MODELS={k[2:]:v for k,v in list(globals().items()) if k.startswith('m_')}
# ---- generators
def rval(d=0):
    k=rnd.random()
    if k<0.25: return float(rnd.choice([0,1,2,3,-1,5,1.5]))
    if k<0.4: return rnd.choice(['','a','ab','abcab','A b ',' x ','é😀'])
    if k<0.48: return None
    if k<0.55: return rnd.choice([True,False])
    if k<0.58: return datetime.datetime(2020,1,2)
    if k<0.6: return len
    if d<2 and k<0.82: return [rval(d+1) for _ in range(rnd.randint(0,4))]
    if d<2: return {rnd.choice(['a','b','c']): rval(d+1) for _ in range(rnd.randint(0,3))}
    return 2.0
def typed(name):
    # bias args toward plausible types
    a=[]
    if name.startswith('array') and name not in('arrayNew','arrayNewSize'): a.append([rval(1) for _ in range(rnd.randint(0,5))])
    elif name.startswith('object') and name!='objectNew': a.append({rnd.choice('abc'):rval(1) for _ in range(rnd.randint(0,3))})
    elif name.startswith('string') and name not in('stringNew','stringFromCharCode'): a.append(rnd.choice(['','a','ab','abcab','A b ',' x ','é😀','a,b,,c']))
    rest=rnd.randint(0,3)
    for _ in range(rest):
        k=rnd.random()
        if k<0.45: a.append(float(rnd.randint(-2,7)))
        elif k<0.7 and a and isinstance(a[0],str): a.append(rnd.choice(['','a','b','ab',',',' ']))
        elif k<0.7 and a and isinstance(a[0],dict): a.append(rnd.choice('abcd'))
        elif k<0.75 and a and isinstance(a[0],list) and a[0]: a.append(copy.deepcopy(rnd.choice(a[0])))
        else: a.append(rval(1))
    if rnd.random()<0.15: a=[rval() for _ in range(rnd.randint(0,4))]
    if name=='stringFromCharCode' and rnd.random()<0.7: a=[float(rnd.choice([65,97,0x1F600,0x20,0xe9])) for _ in range(rnd.randint(0,4))]
    if name=='objectNew' and rnd.random()<0.7: a=[x for _ in range(rnd.randint(0,3)) for x in (rnd.choice('abc'), rval(1))]+([rnd.choice('abc')] if rnd.random()<0.2 else [])
    return a
def eq(a,b):
    if callable(a) and callable(b): return a is b
    if isinstance(a,bool) or isinstance(b,bool): return a is b
    if isnum(a) and isnum(b): return a==b
    if type(a)!=type(b): return False
    if isinstance(a,list): return len(a)==len(b) and all(eq(x,y) for x,y in zip(a,b))
    if isinstance(a,dict): return list(a.keys())==list(b.keys()) and all(eq(a[k],b[k]) for k in a)
    return a==b
FAILVAL={'arrayIndexOf':-1,'arrayLastIndexOf':-1,'stringIndexOf':-1,'stringLastIndexOf':-1,'arrayLength':0,'stringLength':0,'objectHas':False}
stats=collections.Counter(); bad=collections.Counter()
for it in range(int(sys.argv[2])):
    name=rnd.choice(sorted(MODELS))
    args=typed(name)
    ia=copy.deepcopy(args); ma=copy.deepcopy(args)
    # deepcopy breaks function identity? len is builtin -> same
    try: got=F[name](ia,{'globals':{}}); gfail=False
    except ValueArgsError as e: got=e.return_value; gfail=True
    except Exception as e: got=None; gfail=True
    exp=MODELS[name](ma)
    if exp is UNSPEC: stats[name+':unspec']+=1; continue
    if isinstance(exp,tuple) and exp and exp[0]=='FAILDEF':
        ok = gfail and (got is None or eq(got,exp[1])) and eq(ia[:len(args)],args) 
        stats[name+':fail']+=1
    elif exp is FAIL:
        ok = gfail and eq(got,FAILVAL.get(name)) and eq(ia[:len(args)],args)
        stats[name+':fail']+=1
    else:
        # result equality + aliasing of result to first arg
        ok = (not gfail) and eq(got,exp) and (not args or eq(ia[0],ma[0]))
        if ok and isinstance(exp,(list,dict)) and args and isinstance(ma[0],(list,dict)):
            ok = (got is ia[0])==(exp is ma[0])
        stats[name+':ok']+=1
    if not ok:
        bad[name]+=1
        if bad[name]<3: print('BAD',name,repr(args)[:200],'got',repr(got)[:100],gfail,'exp',repr(exp)[:100],'post',repr(ia)[:120],repr(ma)[:120])
print('bad',dict(bad))
missing=[n for n in MODELS if stats[n+':ok']==0 or stats[n+':fail']==0]
print('never ok or never fail:',missing)
