import sys, os, random, copy, collections, math, datetime, statistics, json
sys.path.insert(0, os.environ.get('SRC', '/repo/src'))
src=open('/verif/design/proto_c01.py').read().replace("main(int(sys.argv[1]), int(sys.argv[2]))","")
ns={}; exec(compile(src,'p1','exec'),ns); cmp=ns['cmp']; truthy=ns['truthy']
from bare_script import parse_script, execute_script
from bare_script.library import SCRIPT_FUNCTIONS as F
rnd=random.Random(int(sys.argv[1]))
KEYS=[None,1.0,2.0,2,'a','b','a.,b','a,b','x.0]','x]','1',True,False,'null','']
FIELDS=['a','b','a2','a3','c']
def table(n=None):
    rows=[]
    for _ in range(rnd.randint(0,8) if n is None else n):
        r={}
        for f in FIELDS:
            if rnd.random()<0.7: r[f]=rnd.choice(KEYS)
        rows.append(r)
    return rows
def numtable():
    rows=[]
    for _ in range(rnd.randint(0,10)):
        r={'k':rnd.choice(['x','y','x.,y','x,y',None,1.0,2.0]),'k2':rnd.choice([1.0,2.0,None])}
        if rnd.random()<0.85: r['m']=rnd.choice([None,1.0,2.5,-3.0,10.0,0.0,7.25])
        rows.append(r)
    return rows
def veq(a,b):
    if isinstance(a,bool) or isinstance(b,bool): return a is b
    if isinstance(a,(int,float)) and isinstance(b,(int,float)): return a==b or abs(a-b)<=1e-9*max(abs(a),abs(b))
    if type(a)!=type(b): return False
    if isinstance(a,list): return len(a)==len(b) and all(veq(x,y) for x,y in zip(a,b))
    if isinstance(a,dict): return a.keys()==b.keys() and all(veq(a[k],b[k]) for k in a)
    return a==b
def same(a,b): # value equality for grouping: type-aware
    return cmp(a,b)==0
bad=collections.Counter(); n=collections.Counter()
def call(name,args):
    try: return F[name](args,{'globals':{}})
    except Exception as e: return ('EXC',type(e).__name__,str(e)[:60])
def report(kind,*a):
    bad[kind]+=1
    if bad[kind]<3: print('BAD',kind,*[repr(x)[:300] for x in a])
for it in range(int(sys.argv[2])):
    # filter
    t=table(); expr=rnd.choice(['a','a == b','a2 != null','!c','a < 2',"b == 'a,b'"])
    got=call('dataFilter',[copy.deepcopy(t),expr]); n['filter']+=1
    ref_ev=lambda row,e: {'a':row.get('a'),'a == b':cmp(row.get('a'),row.get('b'))==0,'a2 != null':row.get('a2') is not None,'!c':not truthy(row.get('c')),'a < 2':cmp(row.get('a'),2.0)<0,"b == 'a,b'":cmp(row.get('b'),'a,b')==0}[e]
    exp=[r for r in t if truthy(ref_ev(r,expr))]
    if not veq(got,exp): report('filter',t,expr,got,exp)
    # sort
    t=table(); sorts=[[rnd.choice(FIELDS)]+([rnd.choice([True,False])] if rnd.random()<0.7 else []) for _ in range(rnd.randint(1,3))]
    tt=copy.deepcopy(t); [r.__setitem__('_id',float(i)) for i,r in enumerate(tt)]
    got=call('dataSort',[copy.deepcopy(tt),sorts]); n['sort']+=1
    import functools
    def rc(r1,r2):
        for s in sorts:
            c=cmp(r1.get(s[0]),r2.get(s[0])); 
            if len(s)>1 and s[1]: c=-c
            if c: return c
        return 0
    exp=sorted(tt,key=functools.cmp_to_key(rc))
    if not veq(got,exp): report('sort',tt,sorts,got,exp)
    # top
    t=table(); cnt=float(rnd.randint(1,3)); cats=rnd.choice([None,['a'],['a','b']])
    got=call('dataTop',[copy.deepcopy(t),cnt]+([cats] if cats else [])); n['top']+=1
    groups=[]
    for r in t:
        key=[r.get(c) for c in cats] if cats else []
        for gk,gl in groups:
            if all(same(x,y) for x,y in zip(gk,key)): gl.append(r); break
        else: groups.append((key,[r]))
    exp=[r for gk,gl in groups for r in gl[:int(cnt)]]
    if not veq(got,exp): report('top',t,cnt,cats,got,exp)
    # aggregate
    t=numtable(); cats=rnd.choice([None,['k'],['k','k2']]); fn=rnd.choice(['count','sum','min','max','average','stddev'])
    agg={'measures':[{'field':'m','function':fn}]+([{'field':'m','function':'count','name':'cnt'}] if rnd.random()<0.5 else [])}
    if cats: agg['categories']=cats
    got=call('dataAggregate',[copy.deepcopy(t),agg]); n['agg']+=1
    groups=[]
    for r in t:
        key=[r.get(c) for c in cats] if cats else []
        for gk,gl in groups:
            if all(same(x,y) for x,y in zip(gk,key)): gl.append(r); break
        else: groups.append((key,[r]))
    exp=[]
    for gk,gl in groups:
        row=dict(zip(cats,gk)) if cats else {}
        for ms in agg['measures']:
            vals=[r.get('m') for r in gl if r.get('m') is not None]; f=ms['function']
            if not vals: v=None
            elif f=='count': v=len(vals)
            elif f=='sum': v=math.fsum(vals)
            elif f=='min': v=min(vals)
            elif f=='max': v=max(vals)
            elif f=='average': v=math.fsum(vals)/len(vals)
            else:
                mu=math.fsum(vals)/len(vals); v=math.sqrt(math.fsum((x-mu)**2 for x in vals)/len(vals))
            row[ms.get('name',ms['field'])]=v
        exp.append(row)
    if not veq(got,exp): report('agg',t,agg,got,exp)
    # join
    L=table(rnd.randint(0,5)); R=table(rnd.randint(0,5)); ke=rnd.choice(['a','b'])
    got=call('dataJoin',[copy.deepcopy(L),copy.deepcopy(R),ke]); n['join']+=1
    if isinstance(got,list):
        lnames=[]; [lnames.append(f) for r in L for f in r if f not in lnames]
        rnames=[]; [rnames.append(f) for r in R for f in r if f not in rnames]
        ren={}
        for f in rnames:
            if f not in lnames: ren[f]=f
            else:
                i=2
                while f+str(i) in lnames or f+str(i) in ren.values() or f+str(i) in rnames: i+=1
                ren[f]=f+str(i)
        pos=0; ok=True
        for lr in L:
            ms=[rr for rr in R if same(lr.get(ke),rr.get(ke))]
            if ms:
                for rr in ms:
                    e=dict(lr); e.update({ren[k]:v for k,v in rr.items()})
                    if pos>=len(got) or not veq(got[pos],e): ok=False
                    pos+=1
            else:
                if pos<len(got) and veq(got[pos],lr): pos+=1   # unmatched: either kept or dropped
        if not ok or pos!=len(got): report('join',L,R,ke,got)
    else: report('join-exc',L,R,ke,got)
print(dict(n)); print('bad',dict(bad))
