import sys, os, random, posixpath, re, functools
sys.path.insert(0, os.environ.get('SRC', '/repo/src'))
from bare_script import parse_script, execute_script, BareScriptRuntimeError, BareScriptParserError, url_file_relative
random.seed(int(sys.argv[1]) if len(sys.argv)>1 else 1)
RURL=re.compile(r'^[a-z]+:')
def normloc(u):
    m=re.match(r'^([a-z]+://[^/]+)(/.*)$',u)
    if m: return m.group(1)+posixpath.normpath(m.group(2))
    return posixpath.normpath(u)
def resolve(base, ref):
    if RURL.match(ref): return ref
    if ref.startswith('/'): return ref
    if base is None: return ref
    if RURL.match(base): return base[:base.rfind('/')+1]+ref
    return posixpath.join(posixpath.dirname(base), ref)
DIRS=['','lib/','lib/sub/','other/','/abs/','/abs/d/','http://h/base/','http://h/base/x/','https://k/']
class World:
    def __init__(self):
        self.files={}; self.n=0
    def newfile(self, depth):
        self.n+=1
        loc=random.choice(DIRS)+'f%d.bare'%self.n
        self.files[normloc(loc)]=None  # placeholder
        lines=[]; ops=[]
        fid='F%d'%self.n
        lines.append("systemLog('begin %s')"%fid); ops.append(('log','begin '+fid))
        for _ in range(random.randint(0,3)):
            k=random.random()
            if k<0.5 and depth>0:
                kind=random.random()
                if kind<0.12:
                    ref='missing%d.bare'%random.randint(0,99); lines.append("include '%s'"%ref); ops.append(('inc',ref,False,'missing'))
                elif kind<0.2:
                    child=self.newfile(depth-1)
                    self.files[normloc(child)]=('broken', "x = 1\ny = (\n")
                    ref=self.mkref(loc, child); lines.append("include '%s'"%ref); ops.append(('inc',ref,False,'broken'))
                else:
                    child=self.newfile(depth-1)
                    system = random.random()<0.2
                    if system:
                        # system include: file must live under system prefix dir
                        name='s_'+posixpath.basename(child)
                        self.files[normloc(self.sysprefix+name)]=self.files.pop(normloc(child))
                        lines.append("include <%s>"%name); ops.append(('inc',name,True,'ok'))
                    else:
                        ref=self.mkref(loc, child); lines.append("include '%s'"%ref); ops.append(('inc',ref,False,'ok'))
            elif k<0.7:
                lines.append("v%s = '%s'"%(fid,fid)); ops.append(('set','v'+fid,fid))
            elif k<0.8:
                lines.append('return'); ops.append(('ret',))
            else:
                lines.append("systemLog('mid %s')"%fid); ops.append(('log','mid '+fid))
        lines.append("systemLog('end %s')"%fid); ops.append(('log','end '+fid))
        self.files[normloc(loc)]=('ok','\n'.join(lines),ops)
        return loc
    def mkref(self, frm, to):
        # absolute (url or /path) stays; relative only if same root kind
        if RURL.match(to) or to.startswith('/'):
            if RURL.match(frm) and RURL.match(to) and frm.split('/')[2]==to.split('/')[2] and random.random()<0.6:
                fd=re.sub(r'^[a-z]+://[^/]+','',frm); td=re.sub(r'^[a-z]+://[^/]+','',to)
                return posixpath.relpath(td, posixpath.dirname(fd))
            if frm.startswith('/') and to.startswith('/') and random.random()<0.6:
                return posixpath.relpath(to, posixpath.dirname(frm))
            return to
        if RURL.match(frm) or frm.startswith('/'):
            return None
        r=posixpath.relpath(to, posixpath.dirname(frm) or '.')
        return ('./'+r) if random.random()<0.2 else r
bad=0; n=0; stats={}
for it in range(3000):
    w=World(); w.sysprefix=random.choice(['sys/','http://h/sys/','/opt/sys/'])
    try:
        root=w.newfile(3)
    except TypeError:
        continue
    if any(v is None for v in w.files.values()): continue
    # regenerate refs None => skip
    if any(v[0]=='ok' and "include 'None'" in v[1] for v in w.files.values()): stats['skip-none']=stats.get('skip-none',0)+1; continue
    fetched=[]; logs=[]
    def fetch(req):
        u=req['url']; fetched.append(normloc(u))
        v=w.files.get(normloc(u))
        if v is None:
            if random.random()<0.5: raise IOError('nope')
            return None
        return v[1]
    opts={'globals':{},'fetchFn':fetch,'logFn':logs.append,'systemPrefix':w.sysprefix,'urlFn':functools.partial(url_file_relative, root),'maxStatements':10000}
    rootv=w.files[normloc(root)]
    try:
        execute_script(parse_script(rootv[1]),opts); res=('ok',)
    except BareScriptRuntimeError as e:
        m=re.search(r'Include of "(.*)" failed',str(e)); res=('rt',normloc(m.group(1)) if m else str(e))
    except BareScriptParserError as e:
        m=re.match(r'Included from "(.*)"',str(e)); res=('parse',normloc(m.group(1)) if m else str(e))
    except RecursionError:
        print('RECURSION ROOT',root,'sys',w.sysprefix)
        for k,v in w.files.items(): print('  ',k,repr(v[1]))
        print(fetched[:6]); break
    # reference
    rf=[]; rl=[]; rg={}
    class Stop(Exception): pass
    def sim(loc):
        v=w.files[normloc(loc)]
        for op in v[2]:
            if op[0]=='log': rl.append(op[1])
            elif op[0]=='set': rg[op[1]]=op[2]
            elif op[0]=='ret': return
            elif op[0]=='inc':
                tgt = resolve(w.sysprefix+'x', op[1]) if op[2] else resolve(loc, op[1])
                rf.append(normloc(tgt))
                fv=w.files.get(normloc(tgt))
                if fv is None: raise Stop(('rt',normloc(tgt)))
                if fv[0]=='broken': raise Stop(('parse',normloc(tgt)))
                sim(tgt)
    try: sim(root); rres=('ok',)
    except Stop as s: rres=s.args[0]
    n+=1
    ig={k:v for k,v in opts['globals'].items() if k.startswith('vF')}
    ok = res==rres and fetched==rf and logs==rl and ig==rg
    stats[rres[0]]=stats.get(rres[0],0)+1
    if not ok:
        bad+=1
        if bad<4:
            print('ROOT',root,'sys',w.sysprefix); 
            for k,v in w.files.items(): print('  ',k,repr(v[1]))
            print(res,rres); print(fetched); print(rf); print(logs); print(rl)
print(n,'bad',bad,stats)
