"""Jump-level models: printing a model (dict, published schema) as BareScript source text."""
import re

from . import exprs as ge

_IDENT = re.compile(r'^[A-Za-z_]\w*$')


def expr_text(e):
    (k, v), = e.items()
    if k == 'number':
        if v == int(v) and abs(v) < 1e15:
            return str(int(v)) if v >= 0 else '(0 - %d)' % abs(int(v))
        return repr(v) if 'e' not in repr(v) else '%s' % repr(v).replace('e+', 'e+').replace('e-', 'e-')
    if k == 'string':
        return ge.quote_single(v)
    if k == 'variable':
        return v if _IDENT.match(v) else ge.bracket(v)
    if k == 'group':
        return '(' + expr_text(v) + ')'
    if k == 'unary':
        return v['op'] + '(' + expr_text(v['expr']) + ')'
    if k == 'binary':
        return '(' + expr_text(v['left']) + ' ' + v['op'] + ' ' + expr_text(v['right']) + ')'
    if k == 'function':
        return v['name'] + '(' + ', '.join(expr_text(a) for a in v.get('args', [])) + ')'
    raise AssertionError(e)


def strip_groups(e):
    """The model an expression text printed by expr_text parses to contains a group node per printed parenthesis pair."""
    return e


def print_model(model, indent=''):
    """Source lines for a jump-level model. Note: binary expressions are printed fully parenthesised, so the text parses
    to a model with extra 'group' nodes - semantically identical."""
    out = []
    for s in model['statements']:
        (k, v), = s.items()
        if k == 'expr':
            if 'name' in v:
                out.append('%s%s = %s' % (indent, v['name'], expr_text(v['expr'])))
            else:
                out.append(indent + expr_text(v['expr']))
        elif k == 'jump':
            if 'expr' in v:
                out.append('%sjumpif (%s) %s' % (indent, expr_text(v['expr']), v['label']))
            else:
                out.append('%sjump %s' % (indent, v['label']))
        elif k == 'label':
            out.append('%s%s:' % (indent, v))
        elif k == 'return':
            out.append(indent + 'return' + ((' ' + expr_text(v['expr'])) if 'expr' in v else ''))
        elif k == 'function':
            args = ', '.join(v.get('args', [])) + ('...' if v.get('lastArgArray') else '')
            out.append('%sfunction %s(%s):' % (indent, v['name'], args))
            out.extend(print_model({'statements': v['statements']}, indent + '    '))
            out.append(indent + 'endfunction')
        elif k == 'include':
            for inc in v['includes']:
                out.append('%sinclude %s' % (indent, ('<%s>' % inc['url']) if inc.get('system') else ge.quote_single(inc['url'])))
        else:
            raise AssertionError(s)
    return out
