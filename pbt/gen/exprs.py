"""Expression source trees: generation, printing (with the expected parse known by construction), tokens.

Source tree nodes (tuples):
  ('num', text, value)  ('str', text, value)  ('var', name)  ('brvar', text, name)
  ('call', name, [args])  ('group', e)  ('unary', op, e)  ('bin', op, l, r)
"""

BINARY_OPS = ['**', '*', '/', '%', '+', '-', '<=', '<', '>=', '>', '==', '!=', '&&', '||']
PREC = {'**': 7, '*': 6, '/': 6, '%': 6, '+': 5, '-': 5, '<=': 4, '<': 4, '>=': 4, '>': 4, '==': 3, '!=': 3, '&&': 2, '||': 1}

NUMBER_TEXTS = ['0', '1', '7', '12', '3.5', '1.', '10e+2', '2.5e-3', '007', '0.125', '1e+308', '5e-324', '123456789', '9007199254740993',
                '0.1', '100.', '1.50', '6e+0']
IDENTS = ['gr\u00f6\u00dfe', 'na\u00efve', 'x\u0394', 'a\u00e9', 'n\u0663', 'x\u00b2', 'a', 'b', 'x', 'xy', 'foo', '_u', 'a1', 'true', 'false', 'null', 'Zz_9', 'e', 'if2', 'in', 'endif', 'not', 'and', 'or', 'notes', 'android', 'order', 'xor', 'mod', 'is']
CALL_NAMES = ['notify', 'andThen', 'orElse', 'not', 'gr\u00f6\u00dfe', 'na\u00efve_len', 'x\u0394', 'a\u00e9', 'n\u0663', 'foo', 'if', 'max', 'f2', '__x', 'arrayNew', 'xy']
STRING_VALUES = ['fill: #fff', ':#', 'a: # b', "it\\'s", 'say \\"hi\\"', 'a\\\nb', 'line1\nline2', '\x01', 'a\x01b', '\x02\x7f', '\x00', '\x1b[0m', '', 'a', 'a b', "it's", 'x\\y', '"q"', '#', 'a,b)', '\\', "'", '\\n', 'é\U0001f600', '(', ' ', "a'b'c", 'tab\t', '1 + 2', ':', '\\\\']
BRACKET_NAMES = ['a b', 'x.y', 'a]b', '1st', 'a', 'Ünï', 'a[b', 'a\\b', 'x y z', '+', "q'r", 'a](b', 'f](n', "a]'b", 'x]"y', '(', ')', 'g(x', '"q"', 'a]]b', ']',
                 'a])b', "it's]('"]
# number literals beyond the double range (the literal denotes what float() makes of its text); only where a check asks for them
OVERFLOW_NUMBER_TEXTS = ['1e+999', '2e+308', '1' + '0' * 310, '9e+308', '1.8e+308']
WIDE = {'numbers': False}
# an explicit plus sign is part of the number literal (operand position only: after an operand the same text is a binary plus)
SIGNED_NUMBER_TEXTS = ['+5', '+0.5', '+1e+3', '+007', '+0', '+12.']


def quote_single(value, rnd=None):
    out = []
    for i, ch in enumerate(value):
        if ch == "'":
            out.append("\\'")
        elif ch == '\\':
            nxt = value[i + 1] if i + 1 < len(value) else None
            # a lone backslash is also legal when it cannot be read as an escape
            if rnd is not None and nxt is not None and nxt not in ("'", '\\') and rnd.random() < 0.3:
                out.append('\\')
            else:
                out.append('\\\\')
        else:
            out.append(ch)
    return "'" + ''.join(out) + "'"


def quote_double(value, rnd=None):
    out = []
    for i, ch in enumerate(value):
        if ch == '"':
            out.append('\\"')
        elif ch == '\\':
            nxt = value[i + 1] if i + 1 < len(value) else None
            if rnd is not None and nxt is not None and nxt not in ('"', '\\') and rnd.random() < 0.3:
                out.append('\\')
            else:
                out.append('\\\\')
        else:
            out.append(ch)
    return '"' + ''.join(out) + '"'


def bracket(name):
    return '[' + name.replace('\\', '\\\\').replace(']', '\\]') + ']'


def gen_leaf(rnd, idents=IDENTS):
    k = rnd.random()
    if k < 0.3:
        t = rnd.choice(OVERFLOW_NUMBER_TEXTS) if WIDE['numbers'] and rnd.random() < 0.1 else rnd.choice(NUMBER_TEXTS)
        if rnd.random() < 0.12:
            t = rnd.choice(SIGNED_NUMBER_TEXTS)
        return ('num', t, float(t))
    if k < 0.45:
        v = rnd.choice(STRING_VALUES)
        return ('str', quote_single(v, rnd) if rnd.random() < 0.6 else quote_double(v, rnd), v)
    if k < 0.9:
        return ('var', rnd.choice(idents))
    n = rnd.choice(BRACKET_NAMES)
    return ('brvar', bracket(n), n)


def gen_tree(rnd, depth):
    k = rnd.random()
    if depth <= 0 or k < 0.2:
        return gen_leaf(rnd)
    if k < 0.62:
        return ('bin', rnd.choice(BINARY_OPS), gen_tree(rnd, depth - 1), gen_tree(rnd, depth - 1))
    if k < 0.74:
        return ('unary', rnd.choice('!-'), gen_tree(rnd, depth - 1))
    if k < 0.86:
        return ('group', gen_tree(rnd, depth - 1))
    return ('call', rnd.choice(CALL_NAMES), [gen_tree(rnd, depth - 1) for _ in range(rnd.randint(0, 4))])


def tree_depth(t):
    k = t[0]
    if k == 'bin':
        return 1 + max(tree_depth(t[2]), tree_depth(t[3]))
    if k in ('unary', 'group'):
        return 1 + tree_depth(t[-1])
    if k == 'call':
        return 1 + max([tree_depth(a) for a in t[2]] + [0])
    return 0


def tree_has(t, kinds):
    if t[0] in kinds:
        return True
    if t[0] == 'bin':
        return tree_has(t[2], kinds) or tree_has(t[3], kinds)
    if t[0] in ('unary', 'group'):
        return tree_has(t[-1], kinds)
    if t[0] == 'call':
        return any(tree_has(a, kinds) for a in t[2])
    return False


def print_tree(t, rnd=None, redundant=0.0):
    """Returns (tokens, expected_model). Parentheses are inserted where precedence needs them (and at random where it
    does not, with probability `redundant`); each inserted pair shows up as a 'group' node in the expected model."""
    k = t[0]
    if k == 'num':
        return [t[1]], {'number': t[2]}
    if k == 'str':
        return [t[1]], {'string': t[2]}
    if k == 'var':
        return [t[1]], {'variable': t[1]}
    if k == 'brvar':
        return [t[1]], {'variable': t[2]}
    if k == 'group':
        toks, m = print_tree(t[1], rnd, redundant)
        return ['('] + toks + [')'], {'group': m}
    if k == 'call':
        toks = [t[1], '(']
        args = []
        for i, a in enumerate(t[2]):
            at, am = print_tree(a, rnd, redundant)
            if i:
                toks.append(',')
            toks += at
            args.append(am)
        # the name and '(' may be separated by white space but never by nothing-else; mark them as one unit
        return [(t[1], '(')] + toks[2:] + [')'], {'function': {'name': t[1], 'args': args}}
    if k == 'unary':
        toks, m = print_tree(t[2], rnd, redundant)
        if t[2][0] == 'bin' or (rnd is not None and rnd.random() < redundant):
            toks, m = ['('] + toks + [')'], {'group': m}
        return [t[1]] + toks, {'unary': {'op': t[1], 'expr': m}}
    # binary
    op = t[1]
    lt, lm = print_tree(t[2], rnd, redundant)
    rt, rm = print_tree(t[3], rnd, redundant)
    if (t[2][0] == 'bin' and PREC[t[2][1]] < PREC[op]) or (rnd is not None and rnd.random() < redundant):
        lt, lm = ['('] + lt + [')'], {'group': lm}
    if (t[3][0] == 'bin' and PREC[t[3][1]] <= PREC[op]) or (rnd is not None and rnd.random() < redundant):
        rt, rm = ['('] + rt + [')'], {'group': rm}
    return lt + [op] + rt, {'binary': {'op': op, 'left': lm, 'right': rm}}


def join_tokens(tokens, rnd=None):
    """Join with random inter-token white space (possibly none where that cannot merge two tokens)."""
    out = []
    prev = None
    for tok in tokens:
        if isinstance(tok, tuple):
            text = tok[0] + (rnd.choice(['', '', ' ', '  ']) if rnd else '') + tok[1]
        else:
            text = tok
        if prev is not None:
            need = _needs_space(prev, text)
            if rnd is None:
                out.append(' ')
            else:
                out.append(rnd.choice([' ', ' ', '  ', '\t', ' \t ']) if need or rnd.random() < 0.6 else '')
        out.append(text)
        prev = text
    lead = rnd.choice(['', '', ' ', '   ']) if rnd else ''
    trail = rnd.choice(['', '', ' ', '  \t']) if rnd else ''
    return lead + ''.join(out) + trail


_WORD = 'abcdefghijklmnopqrstuvwxyzABCDEFGHIJKLMNOPQRSTUVWXYZ0123456789_.'


def _needs_space(a, b):
    if a[-1] in _WORD and b[0] in _WORD:
        return True
    # operator characters that would merge into a different operator
    pair = a[-1] + b[0]
    if pair in ('**', '<=', '>=', '==', '!=', '&&', '||', '--'):
        return a[-1] + b[0] in ('**', '<=', '>=', '==', '!=', '&&', '||') or False
    if a[-1] in '*<>=!&|' and b[0] in '*=&|':
        return True
    # a number followed directly by something starting with 'e' is impossible here (operators separate operands)
    return False
