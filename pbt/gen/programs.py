"""Structured BareScript programs: seeded generator (AST as consumed by pbt.refsem.interp), printer, helpers.

Loops terminate by construction under the source-level semantics:
  * every `while` has its own counter cK: `cK = 0` / `while (cK < B) && <cond>:` / first body statement `cK = cK + 1`
  * `for` iterates arrays of length <= 4 that the body does not mutate
  * recursion carries an explicit decreasing counter
so non-termination of the implementation is always a finding (caught by maxStatements).
"""
import copy

from . import exprs as ge


def num(n):
    t = repr(n) if isinstance(n, int) else repr(n)
    return ('num', t, float(n))


def sq(s):
    return ('str', ge.quote_single(s), s)


def call(name, *args):
    return ('call', name, list(args))


def log_stmt(e):
    return ('expr', call('systemLog', e))


def marker(tag):
    return ('expr', call('systemLog', sq(tag)))


FUNCTION_NAME_STEMS = ['fn'] * 8 + ['notify', 'andThen', 'orElse', 'nothing', 'gr\u00f6\u00dfe', 'na\u00efve_len', 'x\u00b2', 'n\u0663', 'returnOf', 'iffy', 'forEach', 'whileOk', 'breaker', 'continued', 'elsewhere', 'endifx', 'jumper', 'jumpifx',
                                  'included', 'functional', 'endfunctionx', 'elifx', 'endforx', 'endwhilex']
KEYWORD_LIKE_VARIABLES = ['x\u00fcber', 'x\u0394', 'a\u00e9', 'returned', 'ifs', 'forx', 'whilst', 'breaks', 'jumps', 'elsex', 'continues', 'includes', 'functions', 'endifs', 'inx', 'nulls', 'truex',
                          # names that begin with (or are) the word operators of other languages
                          'notFound', 'notes', 'nota', 'android', 'andy', 'order', 'orx', 'xor1', 'mod5', 'divide', 'isNull', 'inside', 'not', 'and', 'or', 'is', 'thenx', 'dox', 'eq', 'lte']


class ProgGen:
    """Seeded generator. opts: functions (max count), max_depth, probes, globals (name -> type letter), jumps, returns."""

    def __init__(self, rnd, expr_gen_cls, max_depth=3, max_functions=3, global_types=None, allow_func_in_block=True,
                 wild_calls=True):
        self.r = rnd
        self.E = expr_gen_cls
        self.max_depth = max_depth
        self.max_functions = max_functions
        self.global_types = dict(global_types or {})
        self.funcs = []              # (name, params, last_array, recursive)
        self.nctr = 0
        self.nfor = 0
        self.nmark = 0
        self.nprobe = 0
        self.allow_func_in_block = allow_func_in_block
        self.wild_calls = wild_calls
        self.index_names = set()
        self.stats = {'while': 0, 'for': 0, 'if': 0, 'func': 0, 'break': 0, 'continue': 0, 'return': 0, 'depth': 0, 'statements': 0}

    # -- expressions -------------------------------------------------------------------------------------------
    def eg(self, ctx):
        g = self.E(self.r, ctx['types'])
        g.nprobe = self.nprobe
        return g

    def expr(self, ctx, kind='any', depth=2):
        g = self.eg(ctx)
        e = getattr(g, kind)(depth)
        self.nprobe = g.nprobe
        return e

    def cond(self, ctx):
        g = self.eg(ctx)
        e = g.boolean(2) if self.r.random() < 0.6 else g.any(2)
        if self.r.random() < 0.6:
            e = g.probe(e)
        self.nprobe = g.nprobe
        return e

    def mark(self):
        self.nmark += 1
        return marker('m%d' % self.nmark)

    # -- statements --------------------------------------------------------------------------------------------
    def block(self, ctx, depth, n=None):
        out = []
        if n is None and ctx['level'] > 0 and self.r.random() < 0.07:
            return out                      # an empty body (if / elif / else / loop / function)
        count = n if n is not None else self.r.randint(1, 3)
        for _ in range(count):
            out.extend(self.stmt(ctx, depth))
        if self.r.random() < 0.5:
            out.append(self.mark())
        return out

    def assign_target(self, ctx):
        r = self.r
        c = r.random()
        if c < 0.12:
            return r.choice(KEYWORD_LIKE_VARIABLES)         # identifiers that merely begin with a keyword
        if c < 0.16 and self.funcs and not ctx['infunc']:
            return r.choice(self.funcs)[0]                  # a function name re-bound to a plain value (a later definition binds it again)
        return r.choice(['x', 'y', 'z', 'w'])

    def simple(self, ctx):
        r = self.r
        c = r.random()
        if c < 0.35:
            name = self.assign_target(ctx)
            kind = r.choice(['num', 'num', 'string', 'any', 'boolean'])
            e = self.expr(ctx, kind, 2)
            ctx['types'][name] = {'num': 'n', 'string': 's', 'boolean': 'b', 'any': '?'}[kind]
            return [('assign', name, e)]
        if c < 0.6:
            return [log_stmt(self.expr(ctx, 'any', 2))]
        if c < 0.72 and ctx['loops']:
            k = r.choice(['break', 'continue'])
            self.stats[k] += 1
            # usually guarded so that the rest of the loop body is reachable
            if r.random() < 0.75:
                return [('if', [(self.cond(ctx), [self.mark(), (k,)])], None)]
            return [(k,)]
        if c < 0.8 and (ctx['infunc'] or r.random() < 0.25):
            self.stats['return'] += 1
            ret = ('return', self.expr(ctx, 'any', 1) if r.random() < 0.75 else None)
            if r.random() < 0.7:
                return [('if', [(self.cond(ctx), [ret])], None)]
            return [ret]
        if c < 0.95 and self.funcs:
            f = r.choice(self.funcs)
            nargs = r.choice([len(f[1]), len(f[1]), max(0, len(f[1]) - 1), len(f[1]) + 1, r.randint(0, 5)])
            args = [self.expr(ctx, r.choice(['num', 'any']), 1) for _ in range(nargs)]
            if any(g[0] == f[0] and g[3] for g in self.funcs):       # (any definition of that name recurses on its first argument)
                args = [num(r.randint(0, 3))] + args[1:] if args else [num(2)]
            e = call(f[0], *args)
            if r.random() < 0.5:
                name = self.assign_target(ctx)
                ctx['types'][name] = '?'
                return [('assign', name, e)]
            return [('expr', e)]
        return [self.mark()]

    def stmt(self, ctx, depth):
        r = self.r
        self.stats['statements'] += 1
        k = r.random()
        if depth <= 0 or k < 0.3:
            return self.simple(ctx)
        self.stats['depth'] = max(self.stats['depth'], ctx['level'] + 1)
        sub = dict(ctx, level=ctx['level'] + 1)
        if k < 0.55:
            self.stats['if'] += 1
            nb = r.choice([1, 1, 2, 2, 3])
            branches = [(self.cond(ctx), self.block(sub, depth - 1)) for _ in range(nb)]
            els = self.block(sub, depth - 1) if r.random() < 0.5 else None
            return [('if', branches, els)]
        if k < 0.75 and r.random() < 0.08:
            # `while <literal>:` - the body runs once and leaves through `return` (inside a function) or `break`; nothing in the body can
            # `continue` this loop
            self.stats['while'] += 1
            lit = r.choice([num(1), num(2), sq('x'), ('num', '0.5', 0.5)])
            body = self.block(dict(sub, loops=[]), depth - 1)
            if ctx['infunc'] and r.random() < 0.7:
                body.append(('return', self.expr(ctx, 'any', 1) if r.random() < 0.7 else None))
            else:
                body.append(('break',))
            return [('while', lit, body)]
        if k < 0.75:
            self.stats['while'] += 1
            self.nctr += 1
            ctr = 'c%d' % self.nctr
            bound = r.randint(1, 4) if ctx['loops'] or r.random() < 0.8 else r.choice([6, 9, 13])       # outermost loops sometimes run longer
            ctx['types'][ctr] = 'n'
            cond = ('bin', '&&', ('group', ('bin', '<', ('var', ctr), num(bound))), self.cond(ctx))
            sub2 = dict(sub, loops=ctx['loops'] + ['while'])
            body = [('assign', ctr, ('bin', '+', ('var', ctr), num(1)))] + self.block(sub2, depth - 1)
            return [('assign', ctr, num(0)), ('while', cond, body)]
        if k < 0.93:
            self.stats['for'] += 1
            self.nfor += 1
            val = r.choice(['v', 'u'])
            idx = ('ix%d' % self.nfor) if r.random() < 0.5 else None
            arrays = [n for n, t in ctx['types'].items() if t == 'a' and n.startswith('g')]
            choice = r.random()
            if choice < 0.45 or not arrays:
                arr = call('arrayNew', *[self.expr(ctx, r.choice(['num', 'any', 'string']), 1) for _ in range(r.randint(0, 4))])
            elif choice < 0.8:
                arr = ('var', r.choice(arrays))
            else:
                arr = ('var', r.choice(sorted(self.global_types) or ['g0']))      # may be a non-array: the loop is skipped
            g = self.eg(ctx)
            if r.random() < 0.4:
                arr = g.probe(arr)
                self.nprobe = g.nprobe
            types2 = dict(ctx['types'])
            types2[val] = '?'
            if idx:
                types2[idx] = 'n'
                self.index_names.add(idx)
            sub2 = dict(sub, loops=ctx['loops'] + ['for'], types=types2)
            body = self.block(sub2, depth - 1)
            if arr[0] == 'var' and ctx['types'].get(arr[1]) == 'a' and r.random() < 0.25:
                # the body changes the very array that is being walked (the loop runs over the length it had at the start; an element that is gone
                # by the time it is fetched reads as null)
                change = r.choice([call('arrayPop', arr), call('arrayShift', arr), call('arrayDelete', arr, num(0)), call('arrayPush', arr, num(9)),
                                   call('arraySet', arr, num(0), sq('set'))])
                body.insert(r.randint(0, len(body)), ('expr', change))
            ctx['types'][val] = '?'
            return [('for', val, idx, arr, body)]
        if not ctx['infunc'] and len(self.funcs) < self.max_functions and (ctx['level'] == 0 or self.allow_func_in_block):
            return [self.function(depth)]
        return self.simple(ctx)

    def function(self, depth):
        r = self.r
        self.stats['func'] += 1
        name = '%s%d' % (r.choice(FUNCTION_NAME_STEMS), len(self.funcs))
        recursive = r.random() < 0.25
        saved_funcs = None
        if not recursive and self.funcs and r.random() < 0.2:
            # a second definition of an existing name: the one executed last is the binding. Its body may only call functions defined
            # before the first definition of that name, so the call graph stays acyclic
            name = r.choice(self.funcs)[0]
            saved_funcs = self.funcs
            self.funcs = self.funcs[:[f[0] for f in self.funcs].index(name)]
        # parameter names sometimes collide with global names (x, y, g1): a null parameter must still shadow the global
        params = (['a', 'b', 'c'] if r.random() < 0.6 else r.sample(['a', 'x', 'y', 'g1', 'b'], 3))[:r.randint(1 if recursive else 0, 3)]
        if len(params) >= 2 and not recursive and r.random() < 0.12:
            params[r.randrange(1, len(params))] = params[0]         # a repeated parameter name (lint warns): the later position is the binding
        last = (bool(params) and not recursive and r.random() < 0.3) or (not params and r.random() < 0.25)       # `function f(...):` binds nothing
        types = {p: '?' for p in params}
        if last and params:
            types[params[-1]] = 'a'
        if recursive:
            types[params[0]] = 'n'
        for gname, t in self.global_types.items():
            types.setdefault(gname, t)
        fctx = {'types': types, 'loops': [], 'infunc': True, 'level': 1}
        body = []
        if recursive:
            # explicit decreasing counter in the first parameter
            self.funcs.append((name, params, last, True))
            rec_args = [('bin', '-', ('var', params[0]), num(1))] + [self.expr(fctx, 'num', 1) for _ in params[1:]]
            body.append(('if', [(('bin', '>', ('var', params[0]), num(0)),
                                 [self.mark(), ('assign', 'rr', call(name, *rec_args)), log_stmt(('var', 'rr'))])], None))
            self.funcs.pop()
        for pname in params:
            if r.random() < 0.4:
                # a parameter read as a direct operand (it may be null - a missing argument - while a global of the same name is not)
                body.append(log_stmt(('bin', '+', sq(pname + '?'), ('group', ('bin', r.choice(['==', '!=', '<']), ('var', pname), r.choice([('var', 'null'), num(1)]))))))
        if last and params and r.random() < 0.6:
            # the "..." array is changed in place (and sometimes handed back): every call gets its own array, also a call that passes no
            # variadic arguments at all
            body.append(('expr', call('arrayPush', ('var', params[-1]), self.expr(fctx, 'num', 1))))
            body.append(log_stmt(call('arrayLength', ('var', params[-1]))))
        body += self.block(fctx, min(depth - 1, 2), r.randint(1, 4))
        if last and params and r.random() < 0.3:
            body.append(('return', ('var', params[-1])))
        if saved_funcs is not None:
            self.funcs = saved_funcs
        self.funcs.append((name, params, last, recursive))
        return ('func', name, params, last, body)

    def program(self, size):
        types = dict(self.global_types)
        ctx = {'types': types, 'loops': [], 'infunc': False, 'level': 0}
        depth = min(self.max_depth, max(1, size))
        prog = self.block(ctx, depth, self.r.randint(2, 3 + size))
        if self.r.random() < 0.03:
            # several hundred un-nested calls of a function that leaves through a bare `return` (nothing may accumulate per call)
            n = self.r.choice([260, 300, 520])
            prog += [('func', 'bareRet', ['aa'], False, [('if', [(('bin', '>', ('var', 'aa'), num(1)), [('return', None)])], None), ('return', ('var', 'aa'))]),
                     ('assign', 'cLong', num(0)),
                     ('while', ('bin', '<', ('var', 'cLong'), num(n)), [('assign', 'cLong', ('bin', '+', ('var', 'cLong'), num(1))),
                                                                        ('assign', 'rLong', call('bareRet', ('var', 'cLong')))]),
                     log_stmt(('bin', '+', sq('long loop '), ('var', 'cLong')))]
        return prog


# ---- printing ---------------------------------------------------------------------------------------------------

def expr_text(e, rnd=None):
    toks, _ = ge.print_tree(e, None, 0.0)
    return ge.join_tokens(toks, rnd)


def is_async(func_stmt):
    """Some function definitions carry the `async` keyword (it changes nothing in this implementation): decided by the shape of the definition, so
    that printing is a function of the tree."""
    return (len(func_stmt[1]) + 2 * len(func_stmt[2]) + len(func_stmt[4])) % 4 == 0


def print_program(stmts, indent=0, out=None, rnd=None):
    """Returns the list of source lines."""
    if out is None:
        out = []
    sp = '    ' * indent
    for s in stmts:
        k = s[0]
        if k == 'assign':
            out.append('%s%s = %s' % (sp, s[1], expr_text(s[2], rnd)))
        elif k == 'expr':
            out.append(sp + expr_text(s[1], rnd))
        elif k == 'if':
            for i, (c, b) in enumerate(s[1]):
                out.append('%s%s %s:' % (sp, 'if' if i == 0 else 'elif', expr_text(c, rnd)))
                print_program(b, indent + 1, out, rnd)
            if s[2] is not None:
                out.append(sp + 'else:')
                print_program(s[2], indent + 1, out, rnd)
            out.append(sp + 'endif')
        elif k == 'while':
            out.append('%swhile %s:' % (sp, expr_text(s[1], rnd)))
            print_program(s[2], indent + 1, out, rnd)
            out.append(sp + 'endwhile')
        elif k == 'for':
            out.append('%sfor %s%s in %s:' % (sp, s[1], (', ' + s[2]) if s[2] else '', expr_text(s[3], rnd)))
            print_program(s[4], indent + 1, out, rnd)
            out.append(sp + 'endfor')
        elif k in ('break', 'continue'):
            out.append(sp + k)
        elif k == 'return':
            out.append(sp + 'return' + (' ' + expr_text(s[1], rnd) if s[1] is not None else ''))
        elif k == 'func':
            out.append('%s%sfunction %s(%s%s):' % (sp, 'async ' if is_async(s) else '', s[1], ', '.join(s[2]), '...' if s[3] else ''))
            print_program(s[4], indent + 1, out, rnd)
            out.append(sp + 'endfunction')
        else:
            raise AssertionError(s)
    return out


def has_while_continue(stmts, loops=()):
    """Known-finding class F7: the innermost loop enclosing a `continue`, within the same function, is a `while`."""
    for s in stmts:
        k = s[0]
        if k == 'continue' and loops and loops[-1] == 'while':
            return True
        if k == 'if':
            if any(has_while_continue(b, loops) for _, b in s[1]) or (s[2] is not None and has_while_continue(s[2], loops)):
                return True
        elif k == 'while' and has_while_continue(s[2], loops + ('while',)):
            return True
        elif k == 'for' and has_while_continue(s[4], loops + ('for',)):
            return True
        elif k == 'func' and has_while_continue(s[4], ()):
            return True
    return False


def nesting_depth(stmts):
    d = 0
    for s in stmts:
        k = s[0]
        if k == 'if':
            d = max([d] + [1 + nesting_depth(b) for _, b in s[1]] + ([1 + nesting_depth(s[2])] if s[2] is not None else []))
        elif k == 'while':
            d = max(d, 1 + nesting_depth(s[2]))
        elif k == 'for':
            d = max(d, 1 + nesting_depth(s[4]))
        elif k == 'func':
            d = max(d, 1 + nesting_depth(s[4]))
    return d


def count_statements(stmts):
    n = 0
    for s in stmts:
        n += 1
        k = s[0]
        if k == 'if':
            n += sum(count_statements(b) for _, b in s[1]) + (count_statements(s[2]) if s[2] is not None else 0)
        elif k == 'while':
            n += count_statements(s[2])
        elif k in ('for', 'func'):
            n += count_statements(s[4])
    return n


# ---- token-level printing (C10): every boundary where white space is allowed is a potential continuation point ---------

def _expr_tokens(e):
    toks, _ = ge.print_tree(e, None, 0.0)
    out = []
    for t in toks:
        if isinstance(t, tuple):
            out.extend(t)          # call name and '(' may be separated by white space
        elif t.startswith('[') and len(t) > 2:
            out.extend(['[', t[1:]])       # white space after the opening bracket of a [bracketed name] is not part of the name
        else:
            out.append(t)
    return out


def _line(indent, *parts):
    """parts: tokens or lists of tokens, with 'REQ' markers where white space is mandatory. Returns (indent, [(gap, token)])."""
    flat, req = [], False
    for p in parts:
        if p == 'REQ':
            req = True
            continue
        for tok in (p if isinstance(p, list) else [p]):
            if not flat:
                gap = None
            elif req or ge._needs_space(flat[-1][1], tok):  # pylint: disable=protected-access
                gap = 'req'
            else:
                gap = 'opt'
            flat.append((gap, tok))
            req = False
    return (indent, flat)


def program_token_lines(stmts, depth=0, out=None):
    if out is None:
        out = []
    ind = '    ' * depth
    for s in stmts:
        k = s[0]
        if k == 'assign':
            out.append(_line(ind, s[1], '=', _expr_tokens(s[2])))
        elif k == 'expr':
            out.append(_line(ind, _expr_tokens(s[1])))
        elif k == 'if':
            for i, (c, b) in enumerate(s[1]):
                out.append(_line(ind, 'if' if i == 0 else 'elif', 'REQ', _expr_tokens(c), ':'))
                program_token_lines(b, depth + 1, out)
            if s[2] is not None:
                out.append(_line(ind, 'else', ':'))
                program_token_lines(s[2], depth + 1, out)
            out.append(_line(ind, 'endif'))
        elif k == 'while':
            out.append(_line(ind, 'while', 'REQ', _expr_tokens(s[1]), ':'))
            program_token_lines(s[2], depth + 1, out)
            out.append(_line(ind, 'endwhile'))
        elif k == 'for':
            head = ['for', 'REQ', s[1]] + ([',', s[2]] if s[2] else []) + ['REQ', 'in', 'REQ']
            out.append(_line(ind, *head, _expr_tokens(s[3]), ':'))
            program_token_lines(s[4], depth + 1, out)
            out.append(_line(ind, 'endfor'))
        elif k in ('break', 'continue'):
            out.append(_line(ind, k))
        elif k == 'return':
            if s[1] is None:
                out.append(_line(ind, 'return'))
            else:
                out.append(_line(ind, 'return', 'REQ', _expr_tokens(s[1])))
        elif k == 'func':
            parts = (['async', 'REQ'] if is_async(s) else []) + ['function', 'REQ', s[1], '(']
            for i, p in enumerate(s[2]):
                if i:
                    parts.append(',')
                parts.append(p)
            if s[3]:
                parts.append('...')
            parts += [')', ':']
            out.append(_line(ind, *parts))
            program_token_lines(s[4], depth + 1, out)
            out.append(_line(ind, 'endfunction'))
        else:
            raise AssertionError(s)
    return out
