"""Exhaustive enumeration of nesting shapes of the seven structured constructs (used by C01 and C07).

A shape is an AST (statements of pbt.refsem.interp). Conditions are calls of the host function cc('<tag>') which logs its
tag and returns the next bit of a per-run bit pattern, so each shape can be driven down different paths; every block
contains its own position marker.
"""
from .programs import call, log_stmt, marker, num, sq

CONSTRUCTS = ['if', 'ifelse', 'ifelif', 'ifelifelse', 'while', 'for', 'foridx']
SLOTS = {'if': 1, 'ifelse': 2, 'ifelif': 2, 'ifelifelse': 3, 'while': 1, 'for': 1, 'foridx': 1}
JUMPS = ['none', 'break', 'continue', 'both']


class Namer:
    def __init__(self):
        self.n = 0

    def tag(self, prefix):
        self.n += 1
        return '%s%d' % (prefix, self.n)


def cond(nm):
    return call('cc', sq(nm.tag('c')))


def build(shape, nm):
    """shape: (construct, jump, child_slot, child_shape|None, jump_pos) -> list of statements."""
    construct, jump, slot, child, jump_pos = shape
    inner = build(child, nm) if child is not None else []

    def body(i, in_loop=False):
        out = [marker(nm.tag('m'))]
        jumps = []
        if in_loop and jump != 'none':
            kinds = ['break', 'continue'] if jump == 'both' else [jump]
            for k in kinds:
                jumps.append(('if', [(cond(nm), [marker(nm.tag('j')), (k,)])], None))
        if jump_pos == 'before':
            out += jumps
        if i == slot:
            out += inner
        if jump_pos == 'after':
            out += jumps
        out.append(marker(nm.tag('e')))
        return out

    if construct == 'if':
        return [('if', [(cond(nm), body(0))], None)]
    if construct == 'ifelse':
        return [('if', [(cond(nm), body(0))], body(1))]
    if construct == 'ifelif':
        return [('if', [(cond(nm), body(0)), (cond(nm), body(1))], None)]
    if construct == 'ifelifelse':
        return [('if', [(cond(nm), body(0)), (cond(nm), body(1))], body(2))]
    if construct == 'while':
        ctr = nm.tag('w')
        c = ('bin', '&&', ('group', ('bin', '<', ('var', ctr), num(3))), cond(nm))
        return [('assign', ctr, num(0)),
                ('while', c, [('assign', ctr, ('bin', '+', ('var', ctr), num(1)))] + body(0, True))]
    val = nm.tag('v')
    idx = nm.tag('i') if construct == 'foridx' else None
    return [('for', val, idx, call('arrayNew', num(10), num(20), num(30)),
             [log_stmt(('var', val))] + ([log_stmt(('var', idx))] if idx else []) + body(0, True))]


def shapes(depth, in_loop=False):
    """All shapes of exactly the given nesting depth (depth >= 1)."""
    for construct in CONSTRUCTS:
        is_loop = construct in ('while', 'for', 'foridx')
        jumps = JUMPS if is_loop else ['none']
        for jump in jumps:
            positions = ['before', 'after'] if jump != 'none' else ['before']
            for jump_pos in positions:
                if depth == 1:
                    yield (construct, jump, 0, None, jump_pos)
                else:
                    for slot in range(SLOTS[construct]):
                        for child in shapes(depth - 1):
                            yield (construct, jump, slot, child, jump_pos)


def shape_name(shape):
    construct, jump, slot, child, jump_pos = shape
    s = construct + ('' if jump == 'none' else '+%s@%s' % (jump, jump_pos))
    if child is not None:
        s += '[%d:%s]' % (slot, shape_name(child))
    return s


def shape_kinds(shape):
    out = set()
    while shape is not None:
        out.add('loop' if shape[0] in ('while', 'for', 'foridx') else 'if')
        if shape[1] != 'none':
            out.add(shape[1])
        shape = shape[3]
    return out


PLACEMENTS = ['global', 'function', 'two-functions']


def place(stmts_builder, placement):
    """Wrap the shape: at global scope, inside one function, or in two functions plus global scope (fresh names each)."""
    nm = Namer()
    if placement == 'global':
        return [marker('start')] + stmts_builder(nm) + [marker('end')], nm
    if placement == 'function':
        body = stmts_builder(nm) + [('return', sq('ret'))]
        return [('func', 'ff', ['p'], False, body), marker('start'), log_stmt(call('ff', num(1))), marker('end')], nm
    b1 = stmts_builder(nm)
    b2 = stmts_builder(nm)
    b3 = stmts_builder(nm)
    return [('func', 'ff', [], False, b1), ('func', 'gg', ['q'], False, b2 + [('return', ('var', 'q'))])] + b3 + \
           [('expr', call('ff')), log_stmt(call('gg', num(7))), marker('end')], nm


PATTERNS = [
    [True, False],
    [False, True, True],
    [True, True, False, True, False, False],
    [False],
    [True],
]
