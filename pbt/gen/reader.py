"""An independent reader for generated program text (the format pbt.gen.programs prints): source text -> AST.

Used for replay files, which store source text only. It is a second, self-contained implementation of the statement and
expression grammar (tokeniser + precedence climbing); it never calls the code under test.
"""
import re

from .exprs import PREC

_TOKEN = re.compile(r'''
    \s*(?:
      (?P<num>\d+(?:\.\d*)?(?:e[+-]\d+)?)
    | (?P<sq>'(?:\\\\|\\'|[^'])*')
    | (?P<dq>"(?:\\\\|\\"|[^"])*")
    | (?P<id>[A-Za-z_]\w*)
    | (?P<br>\[\s*(?:\\\]|[^\]])+\])
    | (?P<op>\*\*|<=|>=|==|!=|&&|\|\||[-+*/%<>])
    | (?P<not>!)
    | (?P<lp>\()
    | (?P<rp>\))
    | (?P<comma>,)
    )''', re.X)


class ReadError(Exception):
    pass


def tokenize(text):
    pos, out = 0, []
    text = text.rstrip()
    while pos < len(text):
        m = _TOKEN.match(text, pos)
        if m is None or m.end() == pos:
            raise ReadError('cannot tokenise %r at %d' % (text, pos))
        kind = m.lastgroup
        out.append((kind, m.group(kind)))
        pos = m.end()
    return out


def parse_expr(text):
    toks = tokenize(text)
    pos = [0]

    def peek():
        return toks[pos[0]] if pos[0] < len(toks) else (None, None)

    def unary():
        kind, val = peek()
        if kind == 'lp':
            pos[0] += 1
            e = binary(1)
            if peek()[0] != 'rp':
                raise ReadError('unmatched parenthesis in %r' % text)
            pos[0] += 1
            return ('group', e)
        if kind == 'not' or (kind == 'op' and val == '-'):
            pos[0] += 1
            return ('unary', val, unary())
        if kind == 'id' and pos[0] + 1 < len(toks) and toks[pos[0] + 1][0] == 'lp' and len(val) >= 2:
            pos[0] += 2
            args = []
            while True:
                if peek()[0] == 'rp':
                    pos[0] += 1
                    break
                if args:
                    if peek()[0] != 'comma':
                        raise ReadError('expected , in %r' % text)
                    pos[0] += 1
                args.append(binary(1))
            return ('call', val, args)
        pos[0] += 1
        if kind == 'num':
            return ('num', val, float(val))
        if kind == 'sq':
            return ('str', val, re.sub(r"\\([\\'])", r'\1', val[1:-1]))
        if kind == 'dq':
            return ('str', val, re.sub(r'\\([\\"])', r'\1', val[1:-1]))
        if kind == 'id':
            return ('var', val)
        if kind == 'br':
            return ('brvar', val, re.sub(r'\\([\\\]])', r'\1', val[1:-1].strip()))
        raise ReadError('unexpected token %r in %r' % (val, text))

    def binary(minp):
        left = unary()
        while peek()[0] == 'op' and PREC[peek()[1]] >= minp:
            op = peek()[1]
            pos[0] += 1
            left = ('bin', op, left, binary(PREC[op] + 1))
        return left
    e = binary(1)
    if pos[0] != len(toks):
        raise ReadError('trailing tokens in %r' % text)
    return e


_ASSIGN = re.compile(r'^([A-Za-z_]\w*)\s*=(?!=)\s*(.+)$')
_FUNC = re.compile(r'^(?:async\s+)?function\s+([A-Za-z_]\w*)\s*\(\s*([^)]*?)\s*(\.\.\.)?\s*\)\s*:$')
_FOR = re.compile(r'^for\s+([A-Za-z_]\w*)(?:\s*,\s*([A-Za-z_]\w*))?\s+in\s+(.+):$')


def read_program(source):
    lines = [ln.strip() for ln in source.split('\n')]
    lines = [ln for ln in lines if ln and not ln.startswith('#')]
    pos = [0]

    def block(terminators):
        out = []
        while pos[0] < len(lines):
            ln = lines[pos[0]]
            head = ln.split()[0].rstrip(':')
            if head in terminators:
                return out
            pos[0] += 1
            if ln.startswith('if ') and ln.endswith(':'):
                branches = [(parse_expr(ln[3:-1]), block(('elif', 'else', 'endif')))]
                els = None
                while True:
                    t = lines[pos[0]]
                    pos[0] += 1
                    if t.startswith('elif ') and t.endswith(':'):
                        branches.append((parse_expr(t[5:-1]), block(('elif', 'else', 'endif'))))
                    elif re.fullmatch(r'else\s*:', t):
                        els = block(('endif',))
                    elif t == 'endif':
                        break
                    else:
                        raise ReadError('bad if chain at %r' % t)
                out.append(('if', branches, els))
            elif ln.startswith('while ') and ln.endswith(':'):
                cond = parse_expr(ln[6:-1])
                body = block(('endwhile',))
                pos[0] += 1
                out.append(('while', cond, body))
            elif _FOR.match(ln):
                m = _FOR.match(ln)
                body = block(('endfor',))
                pos[0] += 1
                out.append(('for', m.group(1), m.group(2), parse_expr(m.group(3)), body))
            elif _FUNC.match(ln):
                m = _FUNC.match(ln)
                params = [p.strip() for p in m.group(2).split(',') if p.strip()]
                body = block(('endfunction',))
                pos[0] += 1
                out.append(('func', m.group(1), params, bool(m.group(3)), body))
            elif ln in ('break', 'continue'):
                out.append((ln,))
            elif ln == 'return' or ln.startswith('return '):
                rest = ln[6:].strip()
                out.append(('return', parse_expr(rest) if rest else None))
            elif _ASSIGN.match(ln):
                m = _ASSIGN.match(ln)
                out.append(('assign', m.group(1), parse_expr(m.group(2))))
            else:
                out.append(('expr', parse_expr(ln)))
        if terminators:
            raise ReadError('missing %r' % (terminators,))
        return out
    return block(())
