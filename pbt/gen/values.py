"""Generators of BareScript values (Hypothesis strategies and fixed pools)."""
import datetime
import re
import struct

from hypothesis import strategies as st

TZ_PLUS5 = datetime.timezone(datetime.timedelta(hours=5))
TZ_MINUS330 = datetime.timezone(datetime.timedelta(hours=-3, minutes=-30))


def host_fn_a(args, options):
    return None


def host_fn_b(args, options):
    return args[0] if args else None


HOST_FUNCTIONS = [host_fn_a, host_fn_b]
REGEXES = [re.compile('a+'), re.compile('^b$', re.I), re.compile('')]

SPECIAL_NUMBERS = [0, 0.0, -0.0, 1, 1.0, -1, -1.0, 2, 3, 7, 10, 255, 0.5, -0.5, 1.5, 2.5, 0.1, 1e-7, 1e15, 1e16, 1e21, 2.0 ** 53,
                   2.0 ** 53 + 2, 2 ** 53 - 1, 2 ** 53 + 1, 1e308, 5e-324, 123456789.125, -1e15, 1e-320, 3.141592653589793]

STRING_ALPHABET = ['a', 'b', 'A', 'z', '0', '1', '.', ',', ']', '}', '[', '{', '"', "'", '\\', '/', ' ', '\t', '\n', '\x00', '\x1f',
                   '\x7f', 'é', 'Ж', '中', '\U0001f600', ':', '-', '+', '%', '#', 'e']

strings = st.one_of(
    st.sampled_from(['', 'a', 'b', 'ab', 'abc', 'A', ' ', '0', '1', '1.0', 'true', 'null', '.0,', '1.0]', 'x.0}', 'a b']),
    st.lists(st.sampled_from(STRING_ALPHABET), max_size=8).map(''.join),
    st.text(max_size=6),
)

key_strings = st.one_of(st.sampled_from(['a', 'b', 'c', 'k', 'a2', '', ' ', 'a.0,', '0]']),
                        st.lists(st.sampled_from(STRING_ALPHABET), max_size=4).map(''.join))


def _bits_to_double(b):
    return struct.unpack('<d', struct.pack('<Q', b))[0]


finite_doubles = st.one_of(
    st.sampled_from([float(x) for x in SPECIAL_NUMBERS]),
    st.floats(allow_nan=False, allow_infinity=False),
    st.integers(0, 2 ** 64 - 1).map(_bits_to_double).filter(lambda x: x == x and abs(x) != float('inf')),
    st.integers(-1000, 1000).map(float),
    st.integers(-1000, 1000).map(lambda n: n / 8),
)

numbers = st.one_of(
    st.sampled_from(SPECIAL_NUMBERS),
    st.integers(-20, 20),
    st.integers(-20, 20).map(float),
    st.integers(-10 ** 14, 10 ** 14),
    finite_doubles,
)

small_numbers = st.one_of(st.integers(-3, 6), st.integers(-3, 6).map(float), st.sampled_from([0.5, 1.5, -0.5, 2.5]))

naive_datetimes = st.one_of(
    st.sampled_from([datetime.datetime(2020, 1, 1), datetime.datetime(2019, 12, 31, 23, 59, 59, 999000),
                     datetime.datetime(2020, 1, 1, 0, 0, 0, 1000), datetime.datetime(1970, 1, 1), datetime.datetime(2024, 2, 29, 12)]),
    st.datetimes(min_value=datetime.datetime(1900, 1, 1), max_value=datetime.datetime(2200, 1, 1)).map(
        lambda d: d.replace(microsecond=(d.microsecond // 1000) * 1000)),
)
dates = st.one_of(st.sampled_from([datetime.date(2020, 1, 1), datetime.date(2019, 12, 31)]),
                  st.dates(min_value=datetime.date(1900, 1, 1), max_value=datetime.date(2200, 1, 1)))
aware_datetimes = st.builds(lambda d, tz: d.replace(tzinfo=tz), naive_datetimes,
                            st.sampled_from([datetime.timezone.utc, TZ_PLUS5, TZ_MINUS330]))
datetimes = st.one_of(naive_datetimes, naive_datetimes, dates, aware_datetimes)

functions = st.sampled_from(HOST_FUNCTIONS)
regexes = st.sampled_from(REGEXES)
booleans = st.booleans()

scalars = st.one_of(st.none(), booleans, numbers, numbers, strings, strings, datetimes, functions, regexes)
json_scalars = st.one_of(st.none(), booleans, numbers, strings)


def values(depth=2, leaves=None, max_size=4):
    """Any BareScript value: containers nested to `depth`."""
    leaves = leaves if leaves is not None else scalars
    if depth <= 0:
        return leaves
    sub = values(depth - 1, leaves, max_size)
    return st.one_of(leaves, leaves, st.lists(sub, max_size=max_size), st.dictionaries(key_strings, sub, max_size=max_size))


from zoneinfo import ZoneInfo  # noqa: E402
_NY = ZoneInfo('America/New_York')


class _HostObject:
    def method(self, args, options):
        return None

    def __call__(self, args, options):
        return None


_HOST_OBJECT = _HostObject()


def _deep(n, leaf, kind):
    v = leaf
    for _ in range(n):
        v = [v] if kind is list else {'k': v}
    return v


def comparison_pool():
    """The fixed pool for C11: several hundred values of all nine types (NaN excluded)."""
    d = datetime
    scal = [
        None, True, False,
        0, 0.0, -0.0, 1, 1.0, -1, -1.0, 2, 2.0, 2.5, -2.5, 3, 10, 2 ** 53, float(2 ** 53), 2 ** 53 + 1, 1e15, 1e16, 1e308, -1e308, 5e-324,
        '', 'a', 'A', 'b', 'ab', 'a ', ' a', '0', '1', '10', '2', 'true', 'null', 'é', '\U0001f600', 'array', 'number',
        d.date(2020, 1, 1), d.datetime(2020, 1, 1), d.datetime(2020, 1, 1, 0, 0, 0, 1000), d.datetime(2019, 12, 31, 23, 59, 59),
        d.date(2019, 12, 31), d.datetime(2020, 1, 1, 5, tzinfo=TZ_PLUS5), d.datetime(2020, 1, 1, 0, tzinfo=d.timezone.utc),
        d.datetime(2019, 12, 31, 20, 30, tzinfo=TZ_MINUS330), d.datetime(1970, 1, 1), d.date(2100, 6, 15),
        HOST_FUNCTIONS[0], HOST_FUNCTIONS[1], len,
        REGEXES[0], REGEXES[1],
        # integers no double can hold (int x int arithmetic on library-produced integers)
        2 ** 1024, 2 ** 1100, 2 ** 1100 + 1, -(2 ** 1100),
        # instants given with UTC offsets more than a day apart: 10:30Z, 11:30Z and 11:00Z between them
        d.datetime(2020, 1, 3, 0, 30, tzinfo=d.timezone(d.timedelta(hours=14))), d.datetime(2020, 1, 1, 23, 30, tzinfo=d.timezone(d.timedelta(hours=-12))),
        d.datetime(2020, 1, 2, 11, 0, tzinfo=d.timezone.utc),
        # one zone object, wall-clock times inside the repeated hour of a change back from summer time (fold tells the two 01:30 apart)
        d.datetime(2021, 11, 7, 1, 30, tzinfo=_NY, fold=1), d.datetime(2021, 11, 7, 1, 45, tzinfo=_NY), d.datetime(2021, 11, 7, 1, 30, tzinfo=_NY),
        d.datetime(2021, 11, 7, 6, 0, tzinfo=d.timezone.utc),
        # datetimes less than a millisecond apart (clock readings, host values carry microseconds)
        d.datetime(2020, 1, 1, 0, 0, 0, 400), d.datetime(2020, 1, 1, 0, 0, 0, 800), d.datetime(2020, 1, 1, 0, 0, 0, 999),
        # host functions of other Python kinds (a bound method, a built-in method, a callable object)
        _HOST_OBJECT.method, [].append, _HOST_OBJECT,
    ]
    arrays = [[], [None], [0], [0.0], [1], [1.0], [1, 2], [1, 2.0], [2, 1], [1, 2, 3], [[1]], [[1.0]], [[]], [[], []], ['a'], ['a', 'b'], [True],
              [False], [None, None], [1, None], [None, 1], [d.date(2020, 1, 1)], [d.datetime(2020, 1, 1)], [{}], [{'a': 1}], [{'a': 1.0}],
              [[1, [2, [3]]]], [[1, [2, [3.0]]]], [[1, [2, [4]]]], ['a', 1], [1, 'a'], [HOST_FUNCTIONS[0]], [REGEXES[0]]]
    objects = [{}, {'a': 1}, {'a': 1.0}, {'a': 2}, {'b': 0}, {'a': 1, 'b': 2}, {'b': 2, 'a': 1}, {'a': 1, 'b': 3}, {'a': None}, {'a': []},
               {'a': [1]}, {'a': [1.0]}, {'a': {'b': 1}}, {'a': {'b': 1.0}}, {'a': {'b': {'c': 1}}}, {'a': {'b': {'c': 2}}}, {'': 0}, {'A': 1},
               {'a': 'x'}, {'a': True}, {'a': d.date(2020, 1, 1)}, {'a': d.datetime(2020, 1, 1)}, {'a': 1, 'c': 0}, {'ab': 1},
               {'a': HOST_FUNCTIONS[0]}, {'a': [{'b': [1]}]}, {'a': [{'b': [1.0]}]}]
    # same key sets inserted in different orders, differing in one or several values (insertion order must not matter)
    objects += [{'b': 1, 'a': 2}, {'a': 2, 'b': 1}, {'b': 2, 'a': 1.0}, {'a': 1, 'b': 2, 'c': 0}, {'c': 0, 'b': 2, 'a': 1}, {'c': 1, 'a': 0, 'b': 5},
                {'b': 5, 'c': 1, 'a': 0}, {'b': 0, 'a': 1, 'c': 1}, {'z': None, 'a': 'x'}, {'a': 'y', 'z': None}, {'z': 1, 'a': 'x'},
                {'k': {'b': 1, 'a': 2}}, {'k': {'a': 1, 'b': 2}}, [{'b': 1, 'a': 2}], [{'a': 1, 'b': 2}], {'y': [1], 'x': [2]}, {'x': [1], 'y': [2]},
                {'b': 'q', 'a': 'r', 'c': 's'}, {'c': 'q', 'a': 's', 'b': 'r'}]
    pool = scal + arrays + objects
    # second layer: small containers built from the first
    core = [None, True, 0, 1, 1.0, 'a', '', d.date(2020, 1, 1), d.datetime(2020, 1, 1), [], [1], {}, {'a': 1}]
    for x in core:
        for y in core:
            pool.append([x, y])
        pool.append({'k': x})
        pool.append({'k': x, 'j': 1})
    # arrays of 16-40 elements that differ only in one place, by a boolean facing the number it equals in Python (true / 1, false / 0), also nested
    seq = [float(i) for i in range(2, 18)]
    pool += [[True] + seq, [1] + seq, [1.0] + seq, seq + [False], seq + [0], seq + [0.0], seq[:15] + [[True]] + [9.0], seq[:15] + [[1]] + [9.0],
             seq + seq + [{'f': False}], seq + seq + [{'f': 0}], seq + seq + seq[:7] + [True], seq + seq + seq[:7] + [1], seq[:15] + [True], seq[:15] + [1]]
    # containers nested hundreds of levels deep (well within what the host stack allows): equal ones built separately, ones that differ only at the bottom
    pool += [_deep(250, 1.0, list), _deep(250, 1.0, list), _deep(250, 2.0, list), _deep(400, 1.0, list), _deep(250, 1.0, dict), _deep(250, 2.0, dict),
             _deep(300, 'x', list), _deep(205, 1, list)]
    return pool
