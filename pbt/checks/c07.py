"""C07 - lowered code is well formed: schema-valid with intact, unique jump targets."""
import random

from hypothesis import strategies as st

from pbt.common import impl
from pbt.common.core import Violation, digest, enc, run_hypothesis
from pbt.gen import programs as gp
from pbt.gen import shapes as gs
from pbt.checks.c01 import gen_program, make_cc, make_probe, minimise as c01_minimise, _variants, _valid
from pbt.checks import c01

ID = 'C07'
LEVEL = 'exploration'
RULE = ('Every nesting shape of {if, if-else, if-elif, if-elif-else, while, for, for-with-index} x {none, break, continue, both; before/after '
        'the nested construct} to depth 2 (quick) / 3 (thorough) exhaustively plus a seeded sample of depth 4 (quick) / depth 4 in full for '
        'chains (thorough), each at global scope, inside a function and spread over two functions + global scope; plus seeded random '
        'programs to depth 8. Oracle (own per-scope walk over the returned model): validate_script succeeds; every __bareScript* jump target '
        'is defined exactly once in the scope of the jump; every __bareScript* label is the target of >= 1 jump of its scope; lint_script '
        'reports no unknown/unused/redefined label; executing the model (conditions driven both ways) never raises Unknown jump label. '
        'Non-trivial: depth >= 2 with both an if-family and a loop construct. Distinct by source text.')
RULE += ' Round 8: blocks whose plain (call-free) header conditions repeat - a loop directly guarded by an if / elif / while with the very same condition, siblings, inside for - in the global scope and in functions.'
RULE += ' Also: the programs of C01 with all their later extensions (literal `while`, unreachable statements after break / continue, keyword-like and non-ASCII names, redefinitions). Round 5: the same source handed over in 2-4 parts cut at arbitrary lines must give the same lowering.'
ASSUMPTIONS = ['user code never uses the reserved __bareScript prefix', 'schema validation is done by the published model (validate_script)']


def scopes(model):
    yield 'global', model['statements']
    for s in model['statements']:
        if 'function' in s:
            yield 'function ' + s['function']['name'], s['function']['statements']


def analyse(model):
    """Independent per-scope label analysis. Returns a list of problem strings."""
    problems = []
    for name, stmts in scopes(model):
        defs, uses = {}, {}
        for s in stmts:
            if 'label' in s:
                defs[s['label']] = defs.get(s['label'], 0) + 1
            elif 'jump' in s:
                uses[s['jump']['label']] = uses.get(s['jump']['label'], 0) + 1
            elif 'function' in s and name != 'global':
                problems.append('%s: nested function statement' % name)
        for label, n in uses.items():
            if label.startswith('__bareScript') and defs.get(label, 0) != 1:
                problems.append('%s: jump target %s is defined %d times in its scope' % (name, label, defs.get(label, 0)))
        for label, n in defs.items():
            if label.startswith('__bareScript'):
                if n != 1:
                    problems.append('%s: label %s defined %d times' % (name, label, n))
                if label not in uses:
                    problems.append('%s: label %s is never the target of a jump in its scope' % (name, label))
    return problems


def check_source(src, run_patterns=(), globals0=None):
    d = {'kind': 'source', 'source': src, 'patterns': list(run_patterns), 'globals': enc(globals0 or {})}
    model = impl.parse_valid(src, d)
    try:
        impl.bs.validate_script(model)
    except Exception as e:  # pylint: disable=broad-except
        raise Violation('lowered model is not schema-valid: %s' % e, d, 'schema') from e
    problems = analyse(model)
    if problems:
        raise Violation('lowered model: ' + '; '.join(problems[:3]), d, 'labels:' + problems[0].split(':')[1].split()[0])
    warnings = [w for w in impl.bs.lint_script(model) if 'label' in w.lower()]
    if warnings:
        raise Violation('lint reports label warnings for structured code: %r' % warnings[:3], d, 'lint-label-warning')
    # the same text handed over in several parts (the documented non-str form of script_text): the lowering is that of the whole text, wherever
    # the parts are cut (inside a function body, inside an open block)
    lines = src.split('\n')
    if len(lines) > 3:
        h = sum(map(ord, src[:200])) + len(src)
        cuts = sorted({1 + (h * k) % (len(lines) - 1) for k in (1, 7, 13)})[:1 + h % 3]
        parts, prev = [], 0
        for c in cuts + [len(lines)]:
            parts.append('\n'.join(lines[prev:c]))
            prev = c
        try:
            model_parts = impl.bs.parse_script(parts)
        except Exception as e:  # pylint: disable=broad-except
            raise Violation('the same source in %d parts does not parse: %s' % (len(parts), e), dict(d, parts=parts), 'parts-parse') from e
        if model_parts != model:
            bad = analyse(model_parts)
            raise Violation('the same source in %d parts is lowered differently%s' % (len(parts), (': ' + '; '.join(bad[:2])) if bad else ''), dict(d, parts=parts),
                            'parts-lowering')
    for pattern in run_patterns:
        log = []
        g = dict(globals0 or {})
        g['cc'] = make_cc(log, pattern)
        g['probe'] = make_probe(log)
        out = impl.run_model(model, g, None, 3000, logFn=lambda m: None)
        if out.kind == 'runtime-error' and 'Unknown jump label' in out.message:
            raise Violation('running structured code raised %s' % out.message, d, 'unknown-jump-label')
        # any other outcome (including a host exception from an operator) is the business of C01/C05, not of this property
    return model


_previous = {}
POISON = "for vv in arrayNew(1, 2):\n    if vv:\n        continue\n    endif\n    while vv < 3:\n        vv = vv + 1\n        break\n    endwhile\nendfor\n"


def plan(tier):
    depth = 2 if tier == 'quick' else 3
    parts = 4 if tier == 'quick' else 16
    specs = [{'kind': 'shapes', 'depth': depth, 'part': i, 'parts': parts} for i in range(parts)]
    specs += [{'kind': 'deep', 'depth': d, 'n': 2500 if tier == 'quick' else 40000, 'k': i}
              for i, d in enumerate([3, 3, 4, 4] if tier == 'quick' else [4] * 10 + [5] * 6)]
    specs += [{'kind': 'programs', 'n': 1000 if tier == 'quick' else 12000, 'k': i} for i in range(6 if tier == 'quick' else 16)]
    specs += [{'kind': 'guarded'}]
    return specs


def random_shape(rnd, depth):
    construct = rnd.choice(gs.CONSTRUCTS)
    is_loop = construct in ('while', 'for', 'foridx')
    jump = rnd.choice(gs.JUMPS) if is_loop else 'none'
    pos = rnd.choice(['before', 'after'])
    if depth <= 1:
        return (construct, jump, 0, None, pos)
    return (construct, jump, rnd.randrange(gs.SLOTS[construct]), random_shape(rnd, depth - 1), pos)


def do_shape(ctx, shape, depth, patterns):
    kinds = gs.shape_kinds(shape)
    for placement in gs.PLACEMENTS:
        prog, _ = gs.place(lambda nm: gs.build(shape, nm), placement)
        src = '\n'.join(gp.print_program(prog)) + '\n'
        try:
            check_source(src, patterns)
        except Violation as v:
            ctx.violation(v)
        ctx.case(digest(src), depth >= 2 and {'if', 'loop'} <= kinds, ['depth%d' % depth, 'placement:' + placement] +
                 ['has-' + k for k in sorted(kinds & {'break', 'continue', 'both'})], {'shape': gs.shape_name(shape), 'placement': placement})


PURE_CONDITIONS = ['xx < 3', 'xx', '!done', 'xx != yy', '(xx < 3)', 'xx < 3 && !done', 'arr', "ss == 'a'", 'xx + 1', '-xx', 'xx < yy * 2']
STEP = ['xx = xx + 1', 'done = xx >= 3', 'yy = xx', "ss = 'b'", 'arr = null']


def guarded_sources():
    """Blocks whose header conditions are plain expressions (no call) that REPEAT: a loop guarded by an if / elif / while with the very same condition, the same
    condition on sibling and nested headers, in the global scope and inside a function, with and without break / continue."""
    for c in PURE_CONDITIONS:
        for jump in ('', 'break', 'continue'):
            inner = ['while %s:' % c] + ['    ' + ln for ln in STEP] + (['    if xx > 5:', '        ' + jump, '    endif'] if jump else []) + ['endwhile']
            bodies = {
                'if-guard': ['if %s:' % c] + ['    ' + ln for ln in inner] + ['endif'],
                'elif-guard': ['if done:', "    systemLog('d')", 'elif %s:' % c] + ['    ' + ln for ln in inner] + ['else:', "    systemLog('e')", 'endif'],
                'while-guard': ['while %s:' % c] + ['    ' + ln for ln in inner] + ['    break', 'endwhile'],
                'for-then-if': ['for vv in arrayNew(1, 2):', '    if %s:' % c] + ['        ' + ln for ln in inner] + ['    endif', 'endfor'],
                'siblings': ['if %s:' % c, "    systemLog('a')", 'endif'] + inner + ['if %s:' % c] + ['    ' + ln for ln in inner] + ['endif'],
                'statement-between': ['if %s:' % c, "    systemLog('first')"] + ['    ' + ln for ln in inner] + ['endif'],
            }
            for name, body in sorted(bodies.items()):
                pre = ['xx = 0', 'yy = 1', 'done = false', "ss = 'a'", 'arr = arrayNew(1)']
                yield name + '/global', '\n'.join(pre + body) + '\n'
                yield name + '/function', '\n'.join(['function ff(xx, yy, done, ss, arr):'] + ['    ' + ln for ln in body] + ['    return xx', 'endfunction', "ff(0, 1, false, 'a', arrayNew(1))"]) + '\n'


def run_shard(ctx, spec):
    if spec['kind'] == 'guarded':
        for name, src in guarded_sources():
            try:
                check_source(src, ())
            except Violation as v:
                ctx.violation(v)
            ctx.case(digest(src), True, ['repeated-pure-condition', 'form:' + name], {'form': name, 'source': src})
        ctx.exhaustive['%d pure conditions x {no jump, break, continue} x 6 guard forms x {global, function}' % len(PURE_CONDITIONS)] = True
        return
    if spec['kind'] == 'shapes':
        ix = 0
        for depth in range(1, spec['depth'] + 1):
            for shape in gs.shapes(depth):
                ix += 1
                if ix % spec['parts'] == spec['part']:
                    do_shape(ctx, shape, depth, gs.PATTERNS[:3] if depth <= 2 else gs.PATTERNS[:2])
        ctx.exhaustive['nesting shapes to depth %d x 3 placements' % spec['depth']] = True
        return
    if spec['kind'] == 'deep':
        rnd = random.Random(ctx.seed * 7919 + spec['k'])
        for _ in range(spec['n'] // 3):
            do_shape(ctx, random_shape(rnd, spec['depth']), spec['depth'], gs.PATTERNS[:1])
        return

    def prop(seed, size):
        rnd = random.Random(seed)
        prog, src, globals0, pg = gen_program(rnd, size)
        if rnd.random() < 0.5:
            # parse a broken text first (truncated program / injected syntax error): parser state must not survive a failed call
            # (a different program - the previous case's, or a fixed one with an open for+continue - so that stale state meets fresh input)
            other = gen_program(random.Random(seed ^ 0x5bd1e995), size)[1] if rnd.random() < 0.6 else POISON
            lines = other.rstrip('\n').split('\n')
            cut = rnd.randint(1, len(lines))
            broken = '\n'.join(lines[:cut] + [rnd.choice(['xx = 1 +* 2', 'if (', "systemLog('a' 'b')", 'endfor', ''])])
            try:
                impl.bs.parse_script(broken)
            except impl.bs.ParserError:
                pass
            except Exception as e:  # pylint: disable=broad-except
                raise Violation('parse_script raised %s on a broken text' % type(e).__name__, {'kind': 'source', 'source': broken, 'patterns': [], 'globals': {}},
                                'broken-text-host-exception') from e
        try:
            check_source(src, ([True, False, True],), globals0)
        except Violation as v:
            v.detail.update(seed=seed, size=size)
            raise
        d = gp.nesting_depth(prog)
        ctx.case(digest(src), d >= 2 and pg.stats['if'] > 0 and (pg.stats['while'] + pg.stats['for']) > 0,
                 ['program', 'depth=%d' % min(d, 8), 'functions=%d' % len(pg.funcs)], {'source': src})
    run_hypothesis(ctx, prop, [st.integers(0, 2 ** 32 - 1), st.integers(1, 7)], spec['n'], salt=spec['k'], minimise=minimise)


def minimise(v):
    if 'seed' not in v.detail:
        return None
    rnd = random.Random(v.detail['seed'])
    prog, src, globals0, pg = gen_program(rnd, v.detail['size'])

    def failure(p):
        if not _valid(p):
            return None
        try:
            check_source('\n'.join(gp.print_program(p)) + '\n', ([True, False, True],), globals0)
        except Violation as e:
            return e
        return None
    best = failure(prog)
    if best is None:
        return None
    improved, budget = True, 1500
    while improved and budget > 0:
        improved = False
        for cand in _variants(prog):
            budget -= 1
            if budget <= 0:
                break
            e = failure(cand) if cand else None
            if e is not None and e.bucket == best.bucket:
                prog, best, improved = cand, e, True
                break
    return best


def replay(detail):
    from pbt.common.core import dec
    from pbt.gen import values as gv
    check_source(detail['source'], [tuple(p) for p in detail.get('patterns', [])],
                 dec(detail.get('globals', {}), {'host_fn_a': gv.host_fn_a, 'host_fn_b': gv.host_fn_b}))
