"""C06 - the parser is total and its diagnostics point at the offending source."""
import random
import re

from hypothesis import strategies as st

from pbt.common import impl
from pbt.common.core import Violation, ddmin_list, digest, innermost_repo_frame, run_hypothesis
from pbt.gen import programs as gp
from pbt.checks.c01 import gen_program

ID = 'C06'
LEVEL = 'exploration'
RULE = ('(a) token soups: multi-line texts of statement keywords, expression tokens, colons, backslashes, #, quotes and garbage characters (lines of '
        '0-400 characters, block nesting <= 50, backslash runs <= 8); (b) mutants of valid generated programs: one token deleted / inserted / '
        'replaced, one closing keyword (endif/endwhile/endfor/endfunction) deleted, last line ending in a continuation backslash; (c) targeted '
        'faults: an illegal token @ inserted at every inter-token gap of the expression of every statement kind that has one (assignment, '
        'expression statement, return, jumpif, if, elif, while, for), plain / inside a group / inside a call, on lines of every length class '
        '(short, and 121-400 characters with the fault left/middle/right of the elision window), preceded by 0-5 comment/blank/simple lines, '
        'start_line_number 1 or 7, as one string or chunked, optionally split by continuations. Oracle: only BareScriptParserError escapes; '
        'line_number is the number of the first physical line of the logical line (own line joiner), .line equals that logical line '
        '(white-space normalised), 1 <= column <= len(line)+1, the formatted message is "<error>, line number <n>:" + the (possibly elided) '
        'line + a caret that maps back to column_number; in (c) the first non-blank at/after the column is the injected token or an enclosing '
        '"(" to its left; prepending k lines moves line_number by k and changes nothing else; accepted texts lose a statement when any '
        'logical line is deleted; a deleted closing keyword must be reported. Non-trivial: an error whose fault is not at column 1 of line 1 / '
        'an elided long line / a mutant. Distinct by text.')
RULE += ' Also: lines that hold only the continuation character (inside, before and at the end of input), non-ASCII call names next to the fault, the unmutated generated program must be accepted; coverage-guided atheris (libFuzzer) shards run the same oracle. Round 5: pairs of lines of the same shape and fault, one built from repeating text, one from distinct names, must get the same diagnostic position; digit-like characters that are not decimal digits as right-hand sides.'
RULE += ' Round 8: start_line_number 0, negative and large as well (the reported line is always start + index of the first physical line of the logical line).'
RULE += ' Round 7: include-shaped lines with empty / blank / unterminated targets and both spellings in one line.'
ASSUMPTIONS = [
    'the exact error wording and which of two faults is reported first are not asserted',
    'lines are at most 400 characters (a chain of ~1000 operators exhausts the interpreter recursion limit; outside the quantifier)',
    'the column is where the unparsed remainder starts, which includes the white space in front of the offending token (the suite pins this)',
]

_COMMENT = re.compile(r'^\s*(?:#.*)?$')
_CONT = re.compile(r'\\\s*$')
_SPLIT = re.compile(r'\r?\n')


def logical_lines(text_or_chunks):
    """Own line joiner: [(first physical line index (0-based), joined text)], pending = unterminated continuation parts."""
    lines = []
    if isinstance(text_or_chunks, str):
        lines = _SPLIT.split(text_or_chunks)
    else:
        for c in text_or_chunks:
            lines.extend(_SPLIT.split(c))
    out, pending, start = [], [], None
    for i, ln in enumerate(lines):
        if _COMMENT.match(ln):
            continue
        if not pending:
            start = i
        stripped = _CONT.sub('', ln)
        if stripped != ln:
            pending.append(stripped.strip() if pending else stripped.rstrip())
            continue
        if pending:
            pending.append(stripped.strip())
            out.append((start, ' '.join(pending)))
            pending = []
        else:
            out.append((i, ln))
    return out, (start, pending) if pending else None


def norm(s):
    return ' '.join(s.split())


def parse(text, start=1):
    """('ok', model) | ('error', BareScriptParserError) ; any other exception is a violation."""
    try:
        return 'ok', (impl.bs.parse_script(text, start) if start != 1 else impl.bs.parse_script(text))
    except impl.bs.ParserError as e:
        return 'error', e
    except RecursionError:
        return 'recursion', None


def check_error_shape(err, text, start, d, want_line=None):
    """Invariants every parser error must satisfy."""
    ll, pending = logical_lines(text)
    if err.line_number is None or isinstance(err.line_number, bool) or not isinstance(err.line_number, int):
        raise Violation('parser error %r carries no line number' % (err.error,), d, 'no-line-number')
    candidates = [(i, t) for i, t in ll if i + start == err.line_number]
    if pending and pending[0] + start == err.line_number:
        candidates.append((pending[0], ' '.join(pending[1])))
    if not candidates:
        raise Violation('parser error %r reports line number %r, which is not the first line of any logical line' % (err.error, err.line_number), d,
                        'line-number-not-a-logical-line')
    if not isinstance(err.line, str) or norm(err.line) not in [norm(t) for _, t in candidates]:
        raise Violation('parser error %r at line %d carries line text %r, the source line is %r' % (err.error, err.line_number, err.line, candidates[0][1]),
                        d, 'line-text')
    col = err.column_number
    if not isinstance(col, int) or isinstance(col, bool) or not 1 <= col <= len(err.line) + 1:
        raise Violation('column %r outside the line (length %d)' % (col, len(err.line)), d, 'column-range')
    check_message(err, d)


def check_message(err, d):
    msg = str(err)
    parts = msg.split('\n')
    head = '%s, line number %d:' % (err.error, err.line_number)
    if len(parts) < 3 or parts[0] != head:
        raise Violation('message does not start with %r: %r' % (head, msg[:120]), d, 'message-head')
    shown, caret_line = parts[1], parts[2]
    if caret_line.strip() != '^' or caret_line.rstrip() != caret_line.rstrip(' '):
        raise Violation('no caret line in message: %r' % (msg[:200],), d, 'message-caret')
    caret = caret_line.index('^')
    line, col = err.line, err.column_number
    if len(line) <= 120:
        if shown != line or caret != col - 1:
            raise Violation('caret at %d of %r, column_number is %d' % (caret, shown[:60], col), d, 'caret-short-line')
        return False
    lead = shown.startswith('... ')
    core = shown[4:] if lead else shown
    core = core[:-4] if core.endswith(' ...') else core
    offs = [i for i in range(len(line) - len(core) + 1) if line.startswith(core, i)] if core else []       # (all occurrences, overlapping ones too)
    rel = caret - (4 if lead else 0)
    if not any(off + rel == col - 1 for off in offs) or not core:
        raise Violation('elided line: caret (offset %d in window %r...) does not map back to column %d' % (rel, core[:30], col), d, 'caret-elided-line')
    if len(shown) > 120 + 8:
        raise Violation('elided line still has %d characters' % len(shown), d, 'elision-length')
    return True


# ---- (c) targeted faults ---------------------------------------------------------------------------------------------

KINDS = {
    'assign': ('xx = ', ''), 'expr': ('', ''), 'return': ('return ', ''), 'jumpif': ('jumpif (', ') lbl'),
    'if': ('if ', ':'), 'elif': ('elif ', ':'), 'while': ('while ', ':'), 'for': ('for vv in ', ':'),
}
CLOSERS = {'if': ['endif'], 'elif': ['endif'], 'while': ['endwhile'], 'for': ['endfor'], 'jumpif': ['lbl:']}
PREFIX_POOL = ['# comment', '', 'yy = 1', '    ', "systemLog('a')", '#', 'zz = yy + 1']


def expr_tokens(rnd, n):
    out = []
    for i in range(n):
        out.append('v%03d' % i)
        if i < n - 1:
            out.append(rnd.choice(['+', '-', '*', '&&', '||', '==', '<', '<=', '%']))
    return out


def targeted_case(rnd, kind, ntok, gap, wrap, indent, nprefix, start, split, chunk):
    toks = expr_tokens(rnd, ntok)
    if kind == 'expr' and wrap == 'plain' and len(toks) > 1 and toks[1] == '==':
        toks[1] = '!='        # `name == ...` at the start of a line is read as an assignment to name (of the expression `= ...`)
    toks.insert(gap, '@')
    e = ' '.join(toks)
    if wrap == 'group':
        e = '( ' + e + ' )'
    elif wrap == 'call':
        e = rnd.choice(['foo', 'foo', 'gr\u00f6\u00dfe', 'na\u00efve_len', 'x\u00b2']) + '( 1, ' + e + ' )'
    pre, post = KINDS[kind]
    line = indent + pre + e + post + rnd.choice(['', '', ' ', '   ', '\t', ' \t '])      # trailing white space is allowed on every line
    prefix = [rnd.choice(PREFIX_POOL) for _ in range(nprefix)]
    lines = list(prefix)
    if kind == 'elif':
        lines.append('if 1:')
    fault_index = len(lines)
    phys = [line]
    if split:
        # split the faulty line at up to 3 inter-token gaps of the expression
        trail = line[len(line.rstrip()):]
        words = line.rstrip().split(' ')
        if len(words) > 2:
            cuts = sorted(set(rnd.randrange(1, len(words)) for _ in range(rnd.randint(1, 3))))
            phys, prev = [], 0
            for c in cuts + [len(words)]:
                seg = ' '.join(words[prev:c])
                phys.append(seg)
                prev = c
            phys = [p + (' \\' if i < len(phys) - 1 else trail) for i, p in enumerate(phys)]
            if rnd.random() < 0.4:
                phys.insert(1, '# comment inside the continuation')
    if rnd.random() < 0.25:
        # a physical line that holds nothing but the continuation character (also as the first line of the statement): it is part of the
        # logical line, which starts there
        phys.insert(rnd.randrange(0, len(phys)), rnd.choice(['\\', '  \\', '\t\\ ', '\\  ']))
    lines.extend(phys)
    lines.extend(CLOSERS.get(kind, []))
    text = '\n'.join(lines)
    inp = text
    if chunk:
        k = rnd.randint(1, max(1, len(lines) - 1))
        inp = ['\n'.join(lines[:k]), '\n'.join(lines[k:])]
    return {'kind': 'targeted', 'text': text, 'input': inp, 'start': start, 'fault_line_index': fault_index, 'stmt': kind,
            'indent': indent, 'pre': pre}


def check_targeted(case):
    d = dict(case)
    text, inp, start = case['text'], case['input'], case['start']
    status, res = parse(inp, start)
    if status != 'error':
        raise Violation('an illegal token in a %s statement was accepted (or overflowed): %r' % (case['stmt'], status), d, 'accepts-illegal-token')
    err = res
    ll, _ = logical_lines(text)
    want = [t for i, t in ll if i == case['fault_line_index']]
    if not want:
        raise Violation('harness: fault line not found', d, 'harness')
    line = want[0]
    if err.line_number != case['fault_line_index'] + start:
        raise Violation('%s statement: fault is on line %d, error reports line number %r' % (case['stmt'], case['fault_line_index'] + start, err.line_number),
                        d, 'line-number:' + case['stmt'])
    if not isinstance(err.line, str) or norm(err.line) != norm(line):
        raise Violation('%s statement: error line text %r, source logical line %r' % (case['stmt'], err.line, line), d, 'line-text:' + case['stmt'])
    col = err.column_number
    if not isinstance(col, int) or not 1 <= col <= len(err.line) + 1:
        raise Violation('column %r outside the line' % (col,), d, 'column-range')
    eline = err.line
    at = eline.index('@')
    rest = eline[col - 1:]
    p = col - 1 + (len(rest) - len(rest.lstrip()))
    es = len(norm(case['indent'] + case['pre'])) if case['pre'].strip() else 0
    # span start measured on the reported line: position after the statement's leading keyword part
    lead = (case['indent'] + case['pre'])
    es = len(lead) if eline.startswith(lead) else eline.find(case['pre'].strip()) + len(case['pre'].strip()) if case['pre'].strip() else 0
    if not (p >= es and p < len(eline) and (p == at or (eline[p] == '(' and p < at))):
        raise Violation('%s statement: column %d (first non-blank at %d: %r) does not point at the illegal token at %d' % (
            case['stmt'], col, p + 1, eline[p:p + 6], at + 1), d, 'column:' + case['stmt'])
    elided = check_message(err, d)
    # metamorphic: prepending lines moves the line number only
    for k, extra in ((1, ['# added']), (3, ['', 'qq = 2', '# x'])):
        s2, r2 = parse('\n'.join(extra) + '\n' + text, start)
        if s2 != 'error' or r2.line_number != err.line_number + k or r2.column_number != col or r2.line != err.line or r2.error != err.error:
            raise Violation('prepending %d lines changed the diagnostic beyond the line number: %r -> %r' % (
                k, (err.error, err.line_number, col), (getattr(r2, 'error', s2), getattr(r2, 'line_number', None), getattr(r2, 'column_number', None))),
                d, 'prepend-metamorphic')
    return elided, len(eline)


# ---- (c2) the same fault in a line whose text repeats itself ----------------------------------------------------------------------------

REPEAT_PAIRS = [('f (f', 'f (g'), ('if (if', 'if (zz'), ('jumpif (jumpif', 'jumpxx (jumpyy'), ('xx + xx @ xx', 'xx + yy @ zz'), ('(a (a', '(a (b'), ("'s' 's'", "'s' 't'"),
                ('1 1', '1 2'), ('f (f (f', 'f (g (h'), ('return return', 'return retxrn'), ('lbl lbl', 'lbl lbx'), ('x x', 'x y'), ('[a] [a]', '[a] [b]'),
                ('in in', 'in im'), ('vv vv', 'vv vw'), ('xx = = xx', 'xx = = yy')]


def check_repeated(kind, ix, indent, nprefix):
    """Two lines of the same shape and the same fault, one built from repeating text, one from distinct names: same diagnostic position."""
    pre, post = KINDS[kind]
    a, b = REPEAT_PAIRS[ix]
    out = []
    for cond in (a, b):
        lines = ['# c'] * nprefix + (['if 1:'] if kind == 'elif' else []) + [indent + pre + cond + post] + CLOSERS.get(kind, [])
        text = '\n'.join(lines)
        status, res = parse(text, 1)
        out.append((status, res, text))
    d = {'kind': 'repeated', 'stmt': kind, 'pair': ix, 'indent': indent, 'nprefix': nprefix, 'text': out[0][2], 'other': out[1][2]}
    (sa, ra, ta), (sb, rb, _) = out
    if sa != sb:
        raise Violation('%r is %s but the same line with distinct names %r is %s' % (a, sa, b, sb), d, 'repeated-text-outcome')
    if sa == 'error':
        if (ra.error, ra.line_number, ra.column_number) != (rb.error, rb.line_number, rb.column_number):
            raise Violation('%s statement %r: %s at line %d column %d, but the same line with distinct names (%r) gives %s at line %d column %d' % (
                kind, a, ra.error, ra.line_number, ra.column_number, b, rb.error, rb.line_number, rb.column_number), d, 'repeated-text-position')
        check_error_shape(ra, ta, 1, d)
        check_message(ra, d)
    return sa


# ---- (a) token soup --------------------------------------------------------------------------------------------------

SOUP_STARTS = ['if', 'elif', 'else:', 'endif', 'while', 'endwhile', 'for', 'endfor', 'function', 'async function', 'endfunction', 'break', 'continue',
               'return', 'jump', 'jumpif', 'include', 'lbl:', 'xx =', '', '', '#', '   ', 'in', 'x', "'", '"', '(', ')', '\\', '@', 'if x:', 'while y:',
               'for a in b:', 'function ff():', 'function ff(a, b...):', 'else', 'elif x:', "include 'a.bare'", 'include <b.bare>', 'jump lbl',
               'jumpif (x) lbl', 'return x', 'endif', 'endwhile', 'endfor', 'endfunction',
               # include-shaped lines: empty and blank targets, both spellings in one line, missing closers
               'include <>', "include ''", 'include ""', 'include < >', "include ' '", "include <a.bare> <>", "include <> 'b.bare'", 'include <', "include '", 'include <>>',
               "include '' ''", 'include <a.bare><b.bare>', "include <it's.bare>", "include 'a\\'b.bare'"]
SOUP_TOKENS = ['<>', "''", '<a>', "'b'", '<', '>', 'x', 'yy', '1', '2.5', "'s'", '"d"', '+', '-', '*', '**', '&&', '||', '==', '<', '!', '(', ')', ',', ':', '\\', '#', "'", '"', '@', '$', '=', 'in',
               'foo(', 'if(', '[a b]', '[', ']', '.', '...', 'true', 'null', '...):', '):', 'a,b',
               '\u00b2', '10\u00b2', '\u2460', '\u0663', '1\u00b3\u0661', '\u2167', '1.', '.5', '1e', '0x1F', '1_000']


def gen_soup(rnd, size):
    lines = []
    for _ in range(rnd.randint(1, 3 + 2 * size)):
        k = rnd.random()
        if k < 0.5:
            ln = rnd.choice(SOUP_STARTS)
            for _ in range(rnd.choice([0, 0, 1, 2, 4, 8])):
                ln += rnd.choice([' ', ' ', '', '  ']) + rnd.choice(SOUP_TOKENS)
        elif k < 0.8:
            # a valid simple line
            ln = rnd.choice(['xx = 1', "systemLog('a')", 'if xx:', 'endif', 'while xx:', 'endwhile', 'for a in b:', 'endfor', 'function ff():', 'endfunction',
                             'else:', 'elif yy:', 'break', 'continue', 'return', 'return 1', 'lbl:', 'jump lbl',
                             # a jump directly in front of its own label, a label in front of a jump to it, the same jump twice
                             'jump lbl\nlbl:', 'jump lbl\n# note\n\nlbl:', 'jumpif (xx) lbl\nlbl:', 'lbl:\njump lbl', 'jump lbl\njump lbl\nlbl:', 'jump nxt\nnxt:\njump nxt'])
        else:
            ln = ' '.join(rnd.choice(SOUP_TOKENS) for _ in range(rnd.randint(0, 10)))
        if rnd.random() < 0.08:
            ln += '\\' * rnd.randint(1, 8)
        if rnd.random() < 0.04:
            ln = ln + ' + ' + ' + '.join('v%03d' % i for i in range(rnd.randint(20, 70)))
        if rnd.random() < 0.2:
            ln = rnd.choice(['    ', '\t', '  ']) + ln
        lines.append(ln[:400])
    if rnd.random() < 0.03:
        depth = rnd.randint(10, 50)
        lines = ['if xx:'] * depth + lines + (['endif'] * depth if rnd.random() < 0.5 else [])
    return rnd.choice(['\n', '\n', '\r\n']).join(lines)


def check_any_text(text, start=1, kind='soup'):
    d = {'kind': kind, 'text': text, 'start': start}
    try:
        status, res = parse(text, start)
    except Exception as e:  # pylint: disable=broad-except
        where = innermost_repo_frame(e)
        raise Violation('parse_script raised %s: %s (at %s)' % (type(e).__name__, str(e)[:100], where), d, 'host-exception:%s@%s' % (type(e).__name__, where)) from e
    if status == 'recursion':
        return 'recursion'
    if status == 'error':
        check_error_shape(res, text, start, d)
        return 'error'
    model = res
    try:
        impl.bs.validate_script(model)
    except Exception as e:  # pylint: disable=broad-except
        raise Violation('accepted text yields a model that is not schema-valid: %s' % str(e)[:150], d, 'schema') from e
    ll, pending = logical_lines(text)
    if pending:
        raise Violation('text ending in an unterminated line continuation was accepted (the pending line %r is silently dropped)' % (' '.join(pending[1]),),
                        d, 'dangling-continuation-accepted')
    open_blocks = block_balance([t for _, t in ll])
    if open_blocks:
        raise Violation('text accepted although a %s block is left open at end of input' % open_blocks[-1], d, 'open-block-accepted:' + open_blocks[-1])
    # every logical line is accounted for: deleting any one of them changes the result
    if len(ll) <= 14:
        phys = _SPLIT.split(text)
        for idx, (first, _) in enumerate(ll):
            last = (ll[idx + 1][0] if idx + 1 < len(ll) else len(phys))
            rest = phys[:first] + phys[last:]
            s2, r2 = parse('\n'.join(rest), start)
            if s2 == 'ok' and r2 == model:
                raise Violation('deleting logical line %d (%r) does not change the parsed model: the line was silently dropped' % (first + 1, ll[idx][1][:60]),
                                d, 'line-dropped')
    return 'ok'


_BLOCK_OPEN = [('function', re.compile(r'^\s*(?:async\s+)?function\s+[A-Za-z_]\w*\s*\(.*\)\s*:\s*$')), ('if', re.compile(r'^\s*if\s+.+:\s*$')),
               ('while', re.compile(r'^\s*while\s+.+:\s*$')), ('for', re.compile(r'^\s*for\s+[A-Za-z_]\w*(?:\s*,\s*[A-Za-z_]\w*)?\s+in\s+.+:\s*$'))]
_BLOCK_CLOSE = {'endfunction': 'function', 'endif': 'if', 'endwhile': 'while', 'endfor': 'for'}


def block_balance(lines):
    """Independent block tracker for ACCEPTED texts: names of blocks still open at end of input."""
    stack = []
    for ln in lines:
        word = ln.strip()
        if word in _BLOCK_CLOSE:
            if stack and stack[-1] == _BLOCK_CLOSE[word]:
                stack.pop()
            continue
        if re.match(r'^\s*[A-Za-z_]\w*\s*=[^=]', ln):
            continue      # an assignment wins over every keyword form
        for name, rx in _BLOCK_OPEN:
            if rx.match(ln):
                stack.append(name)
                break
    return stack


# ---- (b) mutants of valid programs -------------------------------------------------------------------------------------

def mutate_program(rnd, src):
    lines = src.rstrip('\n').split('\n')
    m = rnd.random()
    if m < 0.3:
        closers = [i for i, ln in enumerate(lines) if ln.strip() in _BLOCK_CLOSE]
        if closers:
            i = rnd.choice(closers)
            return '\n'.join(lines[:i] + lines[i + 1:]), 'closing-keyword-deleted'
    if m < 0.45:
        return '\n'.join(lines) + rnd.choice([' \\', '\\', ' \\  ', '\n\\', '\n  \\\n', '\n\\\n# comment\n\n']), 'trailing-continuation'
    i = rnd.randrange(len(lines))
    words = lines[i].split(' ')
    j = rnd.randrange(len(words))
    k = rnd.random()
    if k < 0.35 and len(words) > 1:
        del words[j]
        kind = 'token-deleted'
    elif k < 0.7:
        words.insert(j, rnd.choice(SOUP_TOKENS + ['endif', 'else:', 'function', 'xx']))
        kind = 'token-inserted'
    else:
        j2 = rnd.randrange(len(words))
        words[j], words[j2] = words[j2], words[j]
        kind = 'token-swapped'
    lines[i] = ' '.join(words)
    return '\n'.join(lines), kind


def check_mutant(src, mutated, kind):
    d = {'kind': 'mutant', 'text': mutated, 'original': src, 'mutation': kind, 'start': 1}
    # the unmutated program is valid by construction: a diagnostic for it points at source that is not at fault
    try:
        status0, res0 = parse(src)
    except Exception as e:  # pylint: disable=broad-except
        raise Violation('parse_script raised %s on a valid program' % type(e).__name__, d, 'host-exception:' + type(e).__name__) from e
    if status0 != 'ok':
        raise Violation('a valid generated program is rejected: %s, line %r column %r' % (getattr(res0, 'error', status0), getattr(res0, 'line_number', None),
                                                                                           getattr(res0, 'column_number', None)),
                        dict(d, text=src, mutation='none'), 'valid-program-rejected')
    if kind == 'closing-keyword-deleted':
        try:
            status, res = parse(mutated)
        except Exception as e:  # pylint: disable=broad-except
            raise Violation('parse_script raised %s' % type(e).__name__, d, 'host-exception:' + type(e).__name__) from e
        if status == 'ok':
            raise Violation('a program with one closing keyword deleted was accepted', d, 'open-block-accepted')
        check_error_shape(res, mutated, 1, d)
        return 'error'
    if kind == 'trailing-continuation':
        base = parse(src.rstrip('\n'))
        try:
            status, res = parse(mutated)
        except Exception as e:  # pylint: disable=broad-except
            raise Violation('parse_script raised %s' % type(e).__name__, d, 'host-exception:' + type(e).__name__) from e
        if status == 'ok' and (base[0] != 'ok' or res != base[1]):
            raise Violation('a trailing continuation backslash on the last line was accepted but changed the model (last statement dropped)', d,
                            'dangling-continuation-accepted')
        if status == 'error':
            check_error_shape(res, mutated, 1, d)
        return status
    return check_any_text(mutated, 1, 'mutant')


def plan(tier):
    specs = [{'kind': 'targeted', 'part': i, 'parts': 8 if tier == 'quick' else 16} for i in range(8 if tier == 'quick' else 16)]
    k = 4 if tier == 'quick' else 16
    specs += [{'kind': 'soup', 'n': 6000 if tier == 'quick' else 60000, 'k': i} for i in range(k)]
    specs += [{'kind': 'mutants', 'n': 3000 if tier == 'quick' else 30000, 'k': i} for i in range(k)]
    # coverage-guided fuzzing (atheris/libFuzzer) of the same oracle: an add-on, skipped (and counted) when atheris is not installed
    specs += [{'kind': 'atheris', 'runs': 15000 if tier == 'quick' else 600000, 'k': i} for i in range(2 if tier == 'quick' else 12)]
    return specs


def targeted_grid(tier):
    grid = []
    for kind in KINDS:
        for ntok in ((1, 2, 3, 8, 30, 60) if tier == 'quick' else (1, 2, 3, 5, 8, 20, 30, 45, 60, 75)):
            for wrap in ('plain', 'group', 'call'):
                for gap in range(2 * ntok):
                    grid.append((kind, ntok, gap, wrap))
    return grid


def run_shard(ctx, spec):
    if spec['kind'] == 'targeted' and spec['part'] == 0:
        for kind in KINDS:
            for ix in range(len(REPEAT_PAIRS)):
                for indent in ('', '    ', '\t'):
                    for nprefix in (0, 3):
                        try:
                            st_ = check_repeated(kind, ix, indent, nprefix)
                        except Violation as v:
                            ctx.violation(v)
                            st_ = 'violation'
                        ctx.case(digest(['rep', kind, ix, indent, nprefix]), st_ == 'error', ['repeated-text', 'repeated:' + kind], {'kind': kind, 'pair': REPEAT_PAIRS[ix]})
    if spec['kind'] == 'targeted':
        grid = targeted_grid(ctx.tier)
        rnd = random.Random(ctx.seed * 101 + spec['part'])
        for ix in range(spec['part'], len(grid), spec['parts']):
            kind, ntok, gap, wrap = grid[ix]
            for variant in range(2):
                case = targeted_case(rnd, kind, ntok, gap, wrap, rnd.choice(['', '    ', '\t']), rnd.randint(0, 5), rnd.choice([1, 7, 0, -3, 1000, 2]),
                                     variant == 1 and rnd.random() < 0.8, rnd.random() < 0.3)
                try:
                    elided, length = check_targeted(case)
                except Violation as v:
                    ctx.violation(v)
                    continue
                ctx.case(digest(case['text'] + str(case['start'])), True,
                         ['targeted:' + kind, 'wrap:' + wrap, 'elided' if elided else 'not-elided', 'len<=120' if length <= 120 else 'len>120',
                          'continued' if '\\\n' in case['text'] else 'single-line', 'start=%d' % case['start']], {'text': case['text'], 'start': case['start']})
        ctx.exhaustive['@ at every gap x 8 statement kinds x 3 wrappings x token counts'] = True
        return
    if spec['kind'] == 'atheris':
        run_atheris(ctx, spec)
        return
    if spec['kind'] == 'soup':
        def prop(seed, size):
            rnd = random.Random(seed)
            text = gen_soup(rnd, size)
            start = rnd.choice([1, 1, 7, 0, -2, 100])
            res = check_any_text(text, start)
            nlines = text.count('\n') + 1
            ctx.case(digest(text + str(start)), res == 'error' or nlines >= 3, ['soup', 'soup:' + res, 'lines>=5' if nlines >= 5 else 'lines<5',
                                                                                  'long-line' if any(len(x) > 120 for x in text.split('\n')) else 'short-lines'],
                     {'text': text[:500], 'start': start})
        run_hypothesis(ctx, prop, [st.integers(0, 2 ** 32 - 1), st.integers(1, 6)], spec['n'], salt=spec['k'], rounds=5, minimise=minimise_text)
        return

    def mprop(seed, size):
        rnd = random.Random(seed)
        prog, src, globals0, pg = gen_program(rnd, size)
        if rnd.random() < 0.5:
            # the same program in a random layout: statements (block headers too) split over several physical lines
            from pbt.checks.c10 import render_layout
            src = render_layout(rnd, gp.program_token_lines(prog))[0].replace('\r\n', '\n')
        mutated, kind = mutate_program(rnd, src)
        res = check_mutant(src, mutated, kind)
        ctx.case(digest(mutated), True, ['mutant:' + kind, 'mutant-result:' + str(res)], {'text': mutated[:500], 'mutation': kind})
    run_hypothesis(ctx, mprop, [st.integers(0, 2 ** 32 - 1), st.integers(1, 4)], spec['n'], salt=30 + spec['k'], rounds=5, minimise=minimise_text)


def _lift_memory_net():
    import resource
    hard = resource.getrlimit(resource.RLIMIT_AS)[1]
    resource.setrlimit(resource.RLIMIT_AS, (hard, hard))       # libFuzzer has its own -rss_limit_mb


def run_atheris(ctx, spec):
    import json
    import os
    import shutil
    import subprocess
    import sys
    import tempfile
    root = os.path.dirname(os.path.dirname(os.path.dirname(os.path.abspath(__file__))))
    try:
        sys.path.insert(0, os.path.join(root, '.deps'))
        import atheris  # noqa: F401  pylint: disable=unused-import,import-outside-toplevel
    except Exception:  # pylint: disable=broad-except
        ctx.discard('atheris-not-installed')
        return
    work = tempfile.mkdtemp(prefix='fuzz_c06_', dir=os.path.join(root, 'work') if os.path.isdir(os.path.join(root, 'work')) else None)
    try:
        corpus = os.path.join(work, 'corpus')
        os.makedirs(corpus)
        rnd = random.Random(ctx.seed * 7 + spec['k'])
        seeds = ['', "xx = 1\n", "if xx:\n    yy = 'a'\nelif zz:\n    continue\nelse:\nendif\n", "function ff(aa, bb...):\n    return aa + 1\nendfunction\n",
                 "for vv, ii in arrayNew(1, 2):\n    systemLog(vv) \\\n      \nendfor\n", "lbl:\njumpif (xx < 2) lbl\ninclude 'a.bare'\ninclude <b.bare>\n"]
        for _ in range(4):
            seeds.append(gen_program(rnd, 2)[1][:600])
        for i, text in enumerate(seeds):
            with open(os.path.join(corpus, 'seed%d' % i), 'w', encoding='utf-8') as fh:
                fh.write(text)
        out = os.path.join(work, 'violation.json')
        env = dict(os.environ, PYTHONPATH=os.pathsep.join([os.path.dirname(os.path.dirname(impl.bs.module.__file__)), root, os.path.join(root, '.deps')]))
        cmd = [sys.executable, '-m', 'pbt.fuzz_parser', out, '-runs=%d' % spec['runs'], '-seed=%d' % (ctx.seed * 100 + spec['k'] + 1), '-max_len=600', '-timeout=20', '-artifact_prefix=' + work + os.sep,
               '-dict=' + os.path.join(root, 'tools', 'bare.dict'), '-print_final_stats=1', corpus]
        try:
            r = subprocess.run(cmd, capture_output=True, text=True, env=env, cwd=root, timeout=3000, preexec_fn=_lift_memory_net)
        except subprocess.TimeoutExpired:
            ctx.discard('atheris-wall-clock')
            return
        execs = 0
        for line in r.stderr.splitlines():
            if line.startswith('stat::number_of_executed_units:'):
                execs = int(line.split(':')[-1])
        ncorpus = len(os.listdir(corpus))
        if r.returncode == 77 and os.path.exists(out):
            with open(out, encoding='utf-8') as fh:
                data = json.load(fh)
            ctx.violation(Violation('[atheris] ' + data['what'], data['detail'], data['bucket']))
        elif r.returncode != 0:
            ctx.discard('atheris-exit-%d' % r.returncode)
        ctx.evaluations += execs
        ctx.classes['atheris-executions'] += execs
        ctx.classes['atheris-corpus-size'] += ncorpus
        if os.path.exists(out + '.excluded'):
            with open(out + '.excluded', encoding='utf-8') as fh:
                ctx.classes['atheris-excluded-backslash-run-over-8(approx)'] += int(fh.read() or 0)
        for name in sorted(os.listdir(corpus))[:400]:
            with open(os.path.join(corpus, name), 'rb') as fh:
                ctx.nontrivial.add(digest(fh.read()))
    finally:
        shutil.rmtree(work, ignore_errors=True)


def minimise_text(v):
    d = v.detail
    if d.get('kind') not in ('soup', 'mutant') or 'text' not in d or d.get('mutation') in ('closing-keyword-deleted', 'trailing-continuation'):
        return None
    lines = _SPLIT.split(d['text'])

    def fails(ls):
        try:
            check_any_text('\n'.join(ls), d.get('start', 1), d['kind'])
        except Violation as e:
            return e.bucket == v.bucket
        return False
    if not fails(lines):
        return None
    small = ddmin_list(lines, fails, 300)
    try:
        check_any_text('\n'.join(small), d.get('start', 1), d['kind'])
    except Violation as e:
        return e
    return None


def replay(detail):
    if detail.get('kind') == 'repeated':
        check_repeated(detail['stmt'], detail['pair'], detail['indent'], detail['nprefix'])
        return
    k = detail.get('kind')
    if k == 'targeted':
        check_targeted(detail)
    elif k == 'mutant' and detail.get('mutation') in ('closing-keyword-deleted', 'trailing-continuation'):
        check_mutant(detail['original'], detail['text'], detail['mutation'])
    else:
        check_any_text(detail['text'], detail.get('start', 1), k or 'soup')
