"""C20 - diffLines (include <diff.bare>) reconstructs both inputs; every shipped include script is clean."""
import itertools
import os
import re

from hypothesis import strategies as st

from pbt.common.core import Violation, digest, run_hypothesis
from pbt.common import impl

ID = 'C20'
LEVEL = 'exploration'
ALL_EXHAUSTIVE = False
RULE = ('All ordered pairs of line lists of length <= 4 (quick) / <= 6 (thorough) over the alphabet {a,b,c}, enumerated '
        'exhaustively and passed as arrays; Hypothesis-generated pairs up to 40 lines (right side derived from the left by '
        'keep/delete/insert/substitute edits so the sides share lines) passed as arrays, LF strings, CRLF strings and arrays of '
        'multi-line chunks; plus the 7 shipped include scripts (parse, schema, lint, include). Oracle: block shape, '
        'Identical+Remove == left lines, Identical+Add == right lines, equal inputs give only Identical blocks. '
        'Non-trivial: the two sides share at least one line and differ in at least one; distinct by content hash of the pair.')
RULE += " Also: line lists that collide when glued with a separator (the same atoms cut into the same number of lines at different places); lines differing by a lone surrogate, a combining mark, case; array left / text right; the host's own list objects edited in place between two calls. Round 5: 26-70 lines a side, unrelated or nearly identical."
RULE += ' Round 7: lines made of characters an implementation might reserve (U+FFFF, U+FFFE, U+FEFF alone and as a prefix, NUL, U+2028, private use).'
ASSUMPTIONS = [
    'diff.bare is loaded once per process through execute_script with the CLI fetcher (bare._fetch_include) and system prefix',
    'a string input, and every element of an array input, denotes the lines obtained by splitting it on \\r?\\n (the documented line split); '
    'a CR that is not followed by LF is part of its line',
    'nothing is asserted about minimality of the diff or about merging adjacent blocks of one type',
]

ALPHABET = 'abc'
INCLUDE_SCRIPTS = ['args.bare', 'diff.bare', 'forms.bare', 'markdownUp.bare', 'pager.bare', 'unittest.bare', 'unittestMock.bare']
_LINE_SPLIT = re.compile(r'\r?\n')

_state = {}


def diff_fn():
    if 'fn' not in _state:
        options = impl.cli_options()
        impl.bs.execute_script(impl.bs.parse_script('include <diff.bare>'), options)
        fn = options['globals'].get('diffLines')
        if not callable(fn):
            raise Violation('include <diff.bare> does not define diffLines', {'kind': 'script', 'name': 'diff.bare'})
        _state['fn'] = (fn, options)
    return _state['fn']


def lines_of(inp):
    if isinstance(inp, str):
        return _LINE_SPLIT.split(inp)
    out = []
    for part in inp:
        out.extend(_LINE_SPLIT.split(part))
    return out


def check_diff(left, right, same_objects=False, history=None):
    """left/right: a string or a list of strings, exactly what is handed to diffLines (with same_objects the caller's own list objects are
    handed over, as a host that keeps and edits its arrays does)."""
    fn, options = diff_fn()
    detail = {'kind': 'diff', 'left': list(left) if isinstance(left, list) else left, 'right': list(right) if isinstance(right, list) else right}
    if history:
        detail['history'] = history
    L, R = lines_of(left), lines_of(right)
    arg_l = (left if same_objects else list(left)) if isinstance(left, list) else left
    arg_r = (right if same_objects else list(right)) if isinstance(right, list) else right
    left, right = detail['left'], detail['right']
    try:
        res = fn([arg_l, arg_r], options)
    except Exception as e:  # pylint: disable=broad-except
        raise Violation('diffLines raised %s: %s' % (type(e).__name__, e), detail, 'raises') from e
    detail['result'] = res if _jsonable(res) else repr(res)
    if not isinstance(res, list):
        raise Violation('diffLines result is not an array: %r' % (res,), detail, 'shape')
    for d in res:
        if not (isinstance(d, dict) and d.get('type') in ('Identical', 'Add', 'Remove') and isinstance(d.get('lines'), list)
                and len(d['lines']) > 0 and all(isinstance(x, str) for x in d['lines'])):
            raise Violation('malformed or empty difference block %r' % (d,), detail, 'shape')
    got_l = [x for d in res if d['type'] in ('Identical', 'Remove') for x in d['lines']]
    got_r = [x for d in res if d['type'] in ('Identical', 'Add') for x in d['lines']]
    if got_l != L:
        raise Violation('Identical+Remove blocks give %r, left lines are %r' % (got_l, L), detail, 'left-reconstruction')
    if got_r != R:
        raise Violation('Identical+Add blocks give %r, right lines are %r' % (got_r, R), detail, 'right-reconstruction')
    if L == R and any(d['type'] != 'Identical' for d in res):
        raise Violation('identical inputs produced a non-Identical block', detail, 'identical-inputs')
    if arg_l != left or arg_r != right:
        raise Violation('diffLines modified its input', detail, 'mutates-input')
    return L, R


def _jsonable(v):
    return isinstance(v, list) and all(isinstance(d, dict) for d in v)


def nontrivial(L, R):
    return L != R and bool(set(L) & set(R))


def check_script(name):
    detail = {'kind': 'script', 'name': name}
    try:
        text = impl.include_text(name)
    except Exception as e:  # pylint: disable=broad-except
        raise Violation('shipped script %s cannot be read: %s' % (name, e), detail, 'script-missing') from e
    try:
        model = impl.bs.parse_script(text)
    except Exception as e:  # pylint: disable=broad-except
        raise Violation('shipped script %s does not parse: %s' % (name, e), detail, 'script-parse') from e
    try:
        impl.bs.validate_script(model)
    except Exception as e:  # pylint: disable=broad-except
        raise Violation('shipped script %s is not schema-valid: %s' % (name, e), detail, 'script-schema') from e
    warnings = impl.bs.lint_script(model)
    if warnings:
        raise Violation('shipped script %s is not lint-clean: %r' % (name, warnings[:3]), detail, 'script-lint')
    options = impl.cli_options()
    logs = []
    options['logFn'] = logs.append
    options['debug'] = True
    try:
        impl.bs.execute_script(impl.bs.parse_script('include <%s>' % name), options)
    except Exception as e:  # pylint: disable=broad-except
        raise Violation('including %s raised %s: %s' % (name, type(e).__name__, e), detail, 'script-include') from e
    bad = [m for m in logs if 'static analysis' in m or 'failed with error' in m]
    if bad:
        raise Violation('including %s in debug mode logs %r' % (name, bad[:2]), detail, 'script-include-log')


def all_lists(maxlen):
    return [list(p) for k in range(0, maxlen + 1) for p in itertools.product(ALPHABET, repeat=k)]


def plan(tier):
    maxlen = 4 if tier == 'quick' else 6
    n_enum = 8 if tier == 'quick' else 16
    specs = [{'kind': 'scripts'}]
    specs += [{'kind': 'enum', 'maxlen': maxlen, 'part': i, 'parts': n_enum} for i in range(n_enum)]
    n_hyp = 7 if tier == 'quick' else 16
    per = 1500 if tier == 'quick' else 12000
    specs += [{'kind': 'hyp', 'n': per, 'k': i} for i in range(n_hyp)]
    return specs


LINE = st.sampled_from(['a', 'b', 'c', '', 'x y', ' a', 'a ', 'é\U0001f600', '#', '\\', 'a\r', '\r', 'x\ry', '  indented  ', '\ta',
                        # lines that collide when lines are glued with a separator instead of compared one by one: backslash-n (two characters), comma, ...
                        'a\\nb', 'b\\nc', 'a\\n', '\\nb', '\\n', 'a,b', 'b,c', 'a\x00b', 'a\\', 'nb',
                        # lines that differ only by a lone surrogate / a combining mark / case
                        'a\ud83d', '\ud83d', '\udc00a', 'smile \ud83d', 'smile ', 'e\u0301', '\u00e9', 'A', 'ａ',
                        # words a script-level table keyed by line text might use for its own bookkeeping
                        'count', 'length', 'lines', 'type', 'null', 'true', '0', '1', 'Identical', 'ix',
                        # characters an implementation might reserve for itself: noncharacters as whole lines (a sentinel), a byte-order mark, NUL, DEL, separators
                        '\uffff', '\ufffe', '\ufeff', '\ufeffa', 'a\ufeff', '\ufeffalpha', 'alpha', '\x00', '\x7f', '\ufffd', '\U0010ffff', '\u2028', '\x1f', '\x1e',
                        '\ufdd0', '\x01', '\uffff\uffff', '\ue000'])


@st.composite
def pair_strategy(draw):
    left = draw(st.lists(LINE, max_size=40))
    ops = draw(st.lists(st.tuples(st.integers(0, 5), LINE), min_size=len(left), max_size=len(left)))
    right = []
    for line, (op, other) in zip(left, ops):
        if op <= 2:
            right.append(line)
        elif op == 3:
            pass
        elif op == 4:
            right.extend([other, line])
        else:
            right.append(other)
    right.extend(draw(st.lists(LINE, max_size=3)))
    mode = draw(st.sampled_from(['list', 'lf', 'crlf', 'chunks', 'mixed', 'mixed2', 'regroup', 'long', 'long']))
    if mode == 'long':
        # sizes where look-ahead windows and trimming thresholds start to matter: 26-70 lines a side, either unrelated texts (no common line
        # for dozens of lines) or nearly identical ones (one line dropped / added / changed next to repeated lines)
        import random
        rnd = random.Random(draw(st.integers(0, 2 ** 30)))
        n = rnd.randint(26, 70)
        if rnd.random() < 0.5:
            l2 = ['old line %d' % i for i in range(n)]
            r2 = ['new line %d' % i for i in range(rnd.randint(26, 70))]
            tail = ['end'] * rnd.choice([0, 0, 1, 2])
            head = ['start'] * rnd.choice([0, 0, 1])
            l2, r2 = head + l2 + tail, head + r2 + tail
        else:
            l2 = []
            for i in range(n):
                l2.append(rnd.choice(['', '', 'entry %d' % i, 'entry %d' % i, 'same', '}']))
            r2 = list(l2)
            for _ in range(rnd.choice([1, 1, 2, 3])):
                i = rnd.randrange(len(r2))
                op = rnd.random()
                if op < 0.4:
                    del r2[i]
                elif op < 0.8:
                    r2.insert(i, r2[i] if rnd.random() < 0.6 else 'added')
                else:
                    r2[i] = 'changed'
            if rnd.random() < 0.5:
                l2, r2 = r2, l2
        form = rnd.choice(['list', 'lf', 'crlf'])
        if form == 'list':
            return l2, r2
        nl2 = '\n' if form == 'lf' else '\r\n'
        return nl2.join(l2), nl2.join(r2)
    if mode == 'regroup':
        # the same atoms cut into the same NUMBER of lines at different places, the atoms of a line glued with a separator a careless comparison
        # might itself use to glue lines (backslash-n as two characters, comma, NUL, ...): equal "joined" texts, different line lists
        atoms = draw(st.lists(st.sampled_from(['a', 'b', 'c', 'ab', '']), min_size=3, max_size=7))
        sep = draw(st.sampled_from(['\\n', ',', '\x00', ' ', '\\r\\n', '|', '\\', 'n']))
        k = draw(st.integers(2, len(atoms) - 1))

        def cut(points):
            pts = [0] + sorted(points) + [len(atoms)]
            return [sep.join(atoms[pts[i]:pts[i + 1]]) for i in range(len(pts) - 1)]
        positions = list(range(1, len(atoms)))
        p1 = draw(st.lists(st.sampled_from(positions), min_size=k - 1, max_size=k - 1, unique=True))
        p2 = draw(st.lists(st.sampled_from(positions), min_size=k - 1, max_size=k - 1, unique=True))
        return cut(p1), cut(p2)
    if mode == 'list':
        return left, right
    if mode in ('lf', 'crlf'):
        nl = '\n' if mode == 'lf' else '\r\n'
        return nl.join(left), nl.join(right)
    if mode == 'mixed':
        return '\n'.join(left), list(right)
    if mode == 'mixed2':
        return list(left), '\r\n'.join(right)

    def chunks(lines):
        out, i = [], 0
        while i < len(lines):
            n = draw(st.integers(1, 4))
            out.append(draw(st.sampled_from(['\n', '\r\n'])).join(lines[i:i + n]))
            i += n
        return out
    return chunks(left), chunks(right)


def run_shard(ctx, spec):
    if spec['kind'] == 'scripts':
        for name in INCLUDE_SCRIPTS:
            try:
                check_script(name)
            except Violation as v:
                ctx.violation(v)
            ctx.case('script:' + name, True, ['shipped-script'], {'script': name})
        present = sorted(n for n in impl.include_names() if n.endswith('.bare'))
        for name in present:
            if name not in INCLUDE_SCRIPTS:
                try:
                    check_script(name)
                except Violation as v:
                    ctx.violation(v)
                ctx.case('script:' + name, True, ['shipped-script'])
        return
    if spec['kind'] == 'enum':
        lists = all_lists(spec['maxlen'])
        total = len(lists) ** 2
        for ix in range(spec['part'], total, spec['parts']):
            L, R = lists[ix // len(lists)], lists[ix % len(lists)]
            try:
                check_diff(L, R)
            except Violation as v:
                ctx.violation(v)   # size order: the first one per bucket is the smallest
            nt = nontrivial(L, R)
            ctx.case(digest(''.join(L) + '|' + ''.join(R)), nt, ['enum-pair'], {'left': L, 'right': R})
        ctx.exhaustive['pairs of line lists of length <= %d over {a,b,c}' % spec['maxlen']] = True
        return

    def prop(pair):
        left, right = pair
        if isinstance(left, list) and isinstance(right, list) and left and (len(left) + len(right)) % 3 == 0:
            # the host keeps its arrays and edits them in place between calls: the same list objects, same lengths, other contents
            first = [list(left), list(right)]
            check_diff(left, right, same_objects=True)
            i = len(right) % len(left)
            left[i] = left[i] + '!' if len(left[i]) % 2 else 'edited'
            if right:
                right[len(left) % len(right)] = 'R' + right[len(left) % len(right)]
            L, R = check_diff(left, right, same_objects=True, history=first)
        else:
            L, R = check_diff(left, right)
        mode = 'array' if isinstance(left, list) and isinstance(right, list) and all('\n' not in x for x in left + right) else (
            'string' if isinstance(left, str) and isinstance(right, str) else 'chunks/mixed')
        if isinstance(left, str) and '\r\n' in left:
            mode = 'string-crlf'
        ctx.case(digest([left, right]), nontrivial(L, R), ['hyp-' + mode, 'len>=10' if len(L) >= 10 else 'len<10'],
                 {'left': left, 'right': right})
    run_hypothesis(ctx, prop, [pair_strategy()], spec['n'], salt=spec['k'])


def replay(detail):
    if detail.get('kind') == 'script':
        check_script(detail['name'])
    elif detail.get('history'):
        h = detail['history']
        left, right = list(h[0]), list(h[1])
        check_diff(left, right, same_objects=True)
        left[:] = detail['left']
        right[:] = detail['right']
        check_diff(left, right, same_objects=True, history=h)
    else:
        check_diff(detail['left'], detail['right'])
