"""C17 - includes resolve relative to the including file and run in global scope."""
import copy
import functools
import posixpath
import random
import re

from hypothesis import strategies as st

from pbt.common import impl
from pbt.common.core import Violation, digest, run_hypothesis
from pbt.gen import models as gm
from pbt.refsem import jumpvm
from pbt.checks import c08

ID = 'C17'
LEVEL = 'exploration'
RULE = ('Seeded include trees to depth 4 and fan-out 3 over a virtual file system (a dict) with nested relative directories, absolute paths and two '
        'URL roots; the root script is given by path, by URL (urlFn = url_file_relative bound to it, as the CLI does) or inline (no urlFn); '
        'references are relative (with ./ and ../ and sub-directories), absolute paths, absolute URLs or system includes (systemPrefix a '
        'directory, a URL, or absent); targets exist, are missing (fetchFn returns null or raises) or are syntactically broken; files contain '
        'markers, global assignments, function definitions that the includer calls afterwards, a return in the middle, several includes on '
        'adjacent lines (one merged statement, mixing system and plain includes) and the same file included more than once. Oracle: reference '
        'simulation (independent VM + resolver): sequence of fetched locations (dot-segment normalised), marker sequence, final globals, and '
        'for failures the kind and the location named in the message ("Include of <loc> failed" / "Included from <loc>"). Non-trivial: depth '
        '>= 2 with a directory or base change between levels and an include issued after a nested include returned. Distinct by file system.')
RULE += " Also: the including function reached through arrayIndexOf / arrayLastIndexOf / systemPartial; the root model executed as built (`'system': False` spelled out); include cycles with a terminating guard (self-include, ping-pong); URLs that are a scheme and a colon without `//`."
RULE += ' Round 7: included files that exist and are empty (zero characters, blanks, a comment only); urlFn / systemPrefix options spelled out as None.'
RULE += ' Round 9: files of the same name (util.bare, common.bare) in different directories, each included by a sibling through the same reference text.'
RULE += ' Round 8: trees that live below a base whose scheme the URL test does not recognise (s3://, HTTPS://, h2://): such a base is a path and comes out of the resolution as it went in; locations of 120-160 characters (a parser error names them in full).'
ASSUMPTIONS = ['include cycles are generated only with a terminating guard (an unguarded self-include recurses until the host stack is exhausted; outside the property)',
               'system prefixes end with a slash; locations are compared after dot-segment / normpath normalisation']

_URL = re.compile(r'^[a-z]+:')
_LONG = 'releases/2026-10-03T08-15-00Z/static/scripts/application/components/forms/validation/rules/generated/tables/'      # (locations of 120-160 characters)
REL_DIRS = ['', 'lib/', 'lib/sub/', 'other/', 'lib/sub/deep/', 'lib/' + _LONG]
ABS_DIRS = ['/abs/', '/abs/d/', '/srv/www/customer-portal/' + _LONG]
URL_DIRS = ['http://h/base/', 'http://h/base/x/', 'http://h/other/', 'https://k/', 'file:/srv/shared/', 'vfs:/pkg/', 'http://h/base/' + _LONG]      # (a URL is a scheme and a colon - no // needed)
SIBLING_NAMES = ['util.bare', 'util.bare', 'common.bare']
SYS_PREFIXES = ['sys/', 'http://h/sys/', '/opt/sys/', 'lib/sys/', None, '']       # ('' is a configured prefix too: the current directory)


def normloc(u):
    m = re.match(r'^([A-Za-z][A-Za-z0-9+.-]*://[^/]+)(/.*)$', u)        # (scheme://authority is kept as written, whatever the scheme looks like)
    if m:
        return m.group(1) + posixpath.normpath(m.group(2))
    return posixpath.normpath(u)


def kind_of(loc):
    return 'url' if _URL.match(loc) else ('abs' if loc.startswith('/') else 'rel')


def mkref(rnd, frm, to):
    """A reference text that, resolved against `frm`, denotes `to` (or None when no such reference exists)."""
    kf, kt = kind_of(frm), kind_of(to)
    if kt == 'url':
        if kf == 'url' and frm.split('/')[2] == to.split('/')[2] and frm.split(':')[0] == to.split(':')[0] and rnd.random() < 0.7:
            fd = re.sub(r'^[a-z]+://[^/]+', '', frm)
            td = re.sub(r'^[a-z]+://[^/]+', '', to)
            return posixpath.relpath(td, posixpath.dirname(fd))
        return to
    if kt == 'abs':
        if kf == 'abs' and rnd.random() < 0.6:
            return posixpath.relpath(to, posixpath.dirname(frm))
        return to
    if kf != 'rel':
        return None
    r = posixpath.relpath(to, posixpath.dirname(frm) or '.')
    return ('./' + r) if rnd.random() < 0.25 else r


class World:
    def __init__(self, rnd, sysprefix):
        self.r = rnd
        self.sys = sysprefix
        self.files = {}          # normalised location -> ('ok', model) | ('broken', text)
        self.done = []           # completed ok files (location), reusable for repeated inclusion
        self.n = 0
        self.classes = set()
        self.depth_seen = 0
        self.nosib = 0           # > 0 while a file is generated that is moved below the system prefix afterwards (its directory is not final)
        self.pending = set()     # locations of files whose statements are still being generated (ancestors of the file in hand)

    def new_file(self, depth, parent_kind, level=1, force_loc=None):
        r = self.r
        self.n += 1
        self.depth_seen = max(self.depth_seen, level)
        if force_loc is not None:
            d = None
        elif parent_kind == 'rel':
            d = r.choice(REL_DIRS + REL_DIRS + ABS_DIRS[:1] + URL_DIRS[:2])
        elif parent_kind == 'abs':
            d = r.choice(ABS_DIRS + ABS_DIRS + URL_DIRS[:1])
        else:
            d = r.choice(URL_DIRS + URL_DIRS + ABS_DIRS[:1])
        if force_loc is not None:
            loc = force_loc
        else:
            loc = d + r.choice(['f%d.bare'] * 6 + ["it's%d.bare", 'b\\k%d.bare', 'sp ace%d.bare', 'q"%d.bare']) % self.n       # (quotes, a backslash, a blank in a file name)
        self.pending.add(normloc(loc))
        fid = 'F%d' % self.n
        stmts = [c08.log_stmt('begin ' + fid)]
        included_before = False
        for _ in range(r.randint(2, 5) if level == 1 else r.randint(0, 3)):
            k = r.random()
            if k < (0.7 if level <= 2 else 0.5) and depth > 0:
                group = []
                for _ in range(r.choice([1, 1, 1, 2, 3])):
                    inc = self.make_include(loc, depth, level)
                    if inc is not None:
                        group.append(inc)
                if group:
                    if included_before:
                        self.classes.add('include-after-nested-include')
                    if len(group) > 1:
                        self.classes.add('merged-include-statement')
                        if any(i.get('system') for i in group) and not all(i.get('system') for i in group):
                            self.classes.add('system-and-plain-in-one-statement')
                    stmts.append({'include': {'includes': group}})
                    included_before = True
            elif k < 0.7:
                stmts.append({'expr': {'name': 'v' + fid, 'expr': {'string': fid}}})
            elif k < 0.78:
                stmts.append({'function': {'name': 'fn' + fid, 'args': ['aa'], 'statements': [c08.log_stmt('in fn' + fid), {'return': {'expr': {'variable': 'aa'}}}]}})
                self.classes.add('function-in-include')
            elif k < 0.81 and depth > 0:
                # an include statement inside a function body: it still runs in global scope, resolved against the file that calls it
                self.nosib += 1          # (the include is resolved against whichever file calls the function: no common names here)
                inc = self.make_include(loc, depth, level)
                self.nosib -= 1
                if inc is not None:
                    name = 'incfn' + fid
                    stmts.append({'function': {'name': name, 'args': ['v' + fid], 'statements': [
                        {'expr': {'name': 'loc' + fid, 'expr': {'string': 'local'}}}, {'include': {'includes': [inc]}}, c08.log_stmt('after include in ' + name),
                        {'return': {'expr': {'variable': 'v' + fid}}}]}})
                    how = r.choice(['direct', 'direct', 'arrayIndexOf', 'systemPartial', 'arrayLastIndexOf'])
                    if how == 'direct':
                        stmts.append({'expr': {'name': 'ri' + fid, 'expr': {'function': {'name': name, 'args': [{'string': 'arg'}]}}}})
                    elif how == 'systemPartial':
                        stmts.append({'expr': {'name': 'rp' + fid, 'expr': {'function': {'name': 'systemPartial', 'args': [{'variable': name}, {'string': 'arg'}]}}}})
                        stmts.append({'expr': {'name': 'ri' + fid, 'expr': {'function': {'name': 'rp' + fid, 'args': []}}}})
                        self.classes.add('include-inside-function-called-back')
                    else:
                        # the including function is reached through a library function that calls it back
                        stmts.append({'expr': {'name': 'ri' + fid, 'expr': {'function': {'name': how, 'args': [
                            {'function': {'name': 'arrayNew', 'args': [{'string': 'arg'}]}}, {'variable': name}]}}}})
                        self.classes.add('include-inside-function-called-back')
                    self.classes.add('include-inside-function')
            elif k < 0.84:
                stmts.append({'return': {}})
                stmts.append(c08.log_stmt('never ' + fid))
                self.classes.add('return-in-include')
            else:
                stmts.append(c08.log_stmt('mid ' + fid))
        # call functions that included files defined (global scope)
        for name in [s['function']['name'] for loc2 in self.done[-2:] for s in self.files[normloc(loc2)][1]['statements'] if 'function' in s][:1]:
            stmts.append({'expr': {'name': 'r' + fid, 'expr': {'function': {'name': name, 'args': [{'string': fid}]}}}})
        stmts.append(c08.log_stmt('end ' + fid))
        self.files[normloc(loc)] = ('ok', {'statements': stmts})
        self.pending.discard(normloc(loc))
        self.done.append(loc)
        return loc

    def cyclic_files(self, frm, level):
        """A file that (directly, or through a second file) includes itself, guarded by a counter: every executed include statement fetches
        and runs the file again - also when that file is already being included."""
        r = self.r
        self.n += 1
        fid = 'F%d' % self.n
        d = r.choice({'rel': REL_DIRS, 'abs': ABS_DIRS, 'url': URL_DIRS}[kind_of(frm)])
        loc = d + 'cyc%d.bare' % self.n
        cnt = 'cnt' + fid
        V = lambda n: {'variable': n}  # noqa: E731
        bump = {'expr': {'name': cnt, 'expr': {'binary': {'op': '+', 'left': {'function': {'name': 'if', 'args': [V(cnt), V(cnt), {'number': 0.0}]}}, 'right': {'number': 1.0}}}}}
        guard = {'jump': {'label': 'done' + fid, 'expr': {'binary': {'op': '>=', 'left': V(cnt), 'right': {'number': float(r.randint(2, 3))}}}}}
        if r.random() < 0.5:
            inner = {'include': {'includes': [{'url': mkref(r, loc, loc) or posixpath.basename(loc)}]}}
            self.classes.add('self-include-with-guard')
        else:
            other = d + 'cyc%db.bare' % self.n
            self.files[normloc(other)] = ('ok', {'statements': [c08.log_stmt('pong ' + fid), {'include': {'includes': [{'url': mkref(r, other, loc) or posixpath.basename(loc)}]}},
                                                                 c08.log_stmt('pong end ' + fid)]})
            inner = {'include': {'includes': [{'url': mkref(r, loc, other) or posixpath.basename(other)}]}}
            self.classes.add('mutual-include-with-guard')
        self.files[normloc(loc)] = ('ok', {'statements': [bump, c08.log_stmt('begin ' + fid), guard, inner, {'label': 'done' + fid}, c08.log_stmt('end ' + fid)]})
        self.depth_seen = max(self.depth_seen, level + 1)
        ref = mkref(r, frm, loc)
        return {'url': ref} if ref else None

    def make_include(self, frm, depth, level):
        r = self.r
        k = r.random()
        if k < 0.05 and depth > 0:
            return self.cyclic_files(frm, level)
        if k < 0.1:
            self.classes.add('missing')
            ref = r.choice(['missing%d.bare' % r.randint(0, 9), '../gone.bare', 'sub/none.bare'])
            return {'url': ref}
        if k < 0.17:
            child = self.new_file(0, kind_of(frm), level + 1)
            self.done.remove(child)
            self.files[normloc(child)] = ('broken', "xx = 1\nyy = (\nzz = 2\n")
            ref = mkref(r, frm, child)
            self.classes.add('broken')
            return {'url': ref} if ref else None
        if k < 0.2:
            # a file that exists and is empty (zero characters, only blanks, only a comment): including it fetches it and does nothing
            child = self.new_file(0, kind_of(frm), level + 1)
            self.done.remove(child)
            self.files[normloc(child)] = ('blank', r.choice(['', '', '\n', '   ', '# nothing here', '\r\n']))
            ref = mkref(r, frm, child)
            self.classes.add('empty-file')
            return {'url': ref} if ref else None
        if k < 0.3 and self.done:
            # include an already completed file again (possibly from another directory)
            child = r.choice(self.done)
            ref = mkref(r, frm, child)
            if self.nosib and posixpath.basename(child) in SIBLING_NAMES:
                ref = None       # (inside a function body: resolved against the caller, a common name could denote the caller itself)
            if ref:
                self.classes.add('same-file-again')
                return {'url': ref}
        if k < 0.45 and self.sys is not None:
            self.nosib += 1
            child = self.new_file(depth - 1, kind_of(self.sys), level + 1)
            self.nosib -= 1
            name = r.choice(['', 'sub/']) + 's_' + posixpath.basename(child)
            self.files[normloc(self.sys + name)] = self.files.pop(normloc(child))
            self.done[self.done.index(child)] = self.sys + name
            self.classes.add('system-include')
            return {'url': name, 'system': True}
        if k < 0.5 and self.sys is None:
            # a system include without a system prefix resolves like a plain include
            child = self.new_file(depth - 1, kind_of(frm), level + 1)
            ref = mkref(r, frm, child)
            self.classes.add('system-include-without-prefix')
            return {'url': ref, 'system': True} if ref else None
        if k < 0.64 and self.nosib == 0:
            # a sibling with a common name: different directories hold different files called util.bare, and each includer writes the same
            # reference text for its own one (a result remembered by the text of the reference instead of the resolved location shows here)
            m = re.match(r'^(.*/)?[^/]*$', frm)
            sib = (m.group(1) or '') + r.choice(SIBLING_NAMES)
            if normloc(sib) not in self.files and normloc(sib) not in self.pending and normloc(sib) != normloc(frm):
                if any(posixpath.basename(f) == posixpath.basename(normloc(sib)) for f in list(self.files) + list(self.pending)):
                    self.classes.add('same-reference-text-different-file')
                child = self.new_file(depth - 1, kind_of(frm), level + 1, force_loc=sib)
                return {'url': posixpath.basename(sib)}
        child = self.new_file(depth - 1, kind_of(frm), level + 1)
        ref = mkref(r, frm, child)
        if ref is None:
            return None
        if kind_of(child) != kind_of(frm) or posixpath.dirname(normloc(child)) != posixpath.dirname(normloc(frm)):
            self.classes.add('directory-or-base-change')
        if r.random() < 0.25:
            return {'url': ref, 'system': False}      # the optional member spelled out (matters for a model that is executed as built)
        return {'url': ref}


def gen_world(rnd, size):
    sysprefix = rnd.choice(SYS_PREFIXES)
    w = World(rnd, sysprefix)
    root_kind = rnd.choice(['rel', 'rel', 'abs', 'url'])
    root = w.new_file(min(3, size), root_kind)
    inline = kind_of(root) == 'rel' and posixpath.dirname(root) == '' and rnd.random() < 0.5
    if kind_of(root) == 'rel' and not inline and rnd.random() < 0.25:
        # the whole relative tree lives below a location that the URL test (lower-case letters and a colon) does not recognise: a scheme with a digit or in
        # capitals. Such a base is handled like a path - and must come out of the resolution exactly as it went in (the double slash included)
        prefix = rnd.choice(['s3://bucket/', 'HTTPS://Host.local/', 'h2://node-1/app/', 'S3://b/'])
        w.files = {normloc(prefix + loc) if kind_of(loc) == 'rel' else loc: v for loc, v in w.files.items()}
        root = prefix + root
        if w.sys is not None and kind_of(w.sys) == 'rel':
            w.sys = prefix + w.sys
        w.classes.add('base-with-unrecognised-scheme')
    w.classes.add('root-inline' if inline else 'root-' + kind_of(root))
    return w, root, inline, rnd.choice(['none', 'none', 'raise', 'raise', 'nofetch'])


def run_impl(w, root, inline, missing_mode, as_built=False):
    files_text = {}
    for loc, v in w.files.items():
        files_text[loc] = '\n'.join(gm.print_model(v[1])) + '\n' if v[0] == 'ok' else v[1]
    fetched, logs = [], []

    def fetch(req):
        u = req['url']
        fetched.append(normloc(u))
        text = files_text.get(normloc(u))
        if text is None and missing_mode == 'raise':
            raise IOError('no such file ' + u)
        return text
    g = {}
    opts = {'globals': g, 'fetchFn': fetch, 'logFn': lambda m: logs.append(('log', m)), 'maxStatements': 20000}
    if missing_mode == 'nofetch':
        # a host without a fetch function: the first include that executes fails - and the error names the location it resolves to
        if len(root) % 2:
            del opts['fetchFn']
        else:
            opts['fetchFn'] = None
    if w.sys is not None:
        opts['systemPrefix'] = w.sys
    if not inline:
        opts['urlFn'] = functools.partial(impl.bs.module.url_file_relative, root)
    elif len(w.files) % 2:
        opts['urlFn'] = None            # an option spelled out as None is an option that is not given (the command line does this for -c scripts)
    if w.sys is None and (len(w.files) // 2) % 2:
        opts['systemPrefix'] = None
    # the root script is either parsed from its text or handed over as the model a host built (optional members spelled out)
    model = copy.deepcopy(w.files[normloc(root)][1]) if as_built else impl.bs.parse_script(files_text[normloc(root)])
    try:
        impl.bs.execute_script(model, opts)
        res = ('ok', None)
    except impl.bs.RuntimeError as e:
        m = re.search(r'Include of "(.*)" failed', str(e))
        res = ('include-failed', normloc(m.group(1))) if m else ('runtime-error', str(e))
    except impl.bs.ParserError as e:
        m = re.match(r'Included from "(.*)"', str(e))
        res = ('include-parser-error', normloc(m.group(1))) if m else ('parser-error', str(e))
    except RecursionError:
        res = ('recursion', None)
    except Exception as e:  # pylint: disable=broad-except
        res = ('host-exception', '%s: %s' % (type(e).__name__, e))
    user = {k: ('<function>' if callable(v) else v) for k, v in g.items() if not (k in impl.bs.SCRIPT_FUNCTIONS and v is impl.bs.SCRIPT_FUNCTIONS[k])}
    # second run with the SAME options object (as a host that keeps one configuration does): a plain relative include of the new
    # script must resolve exactly as the host configured it (against the root for path/URL roots, verbatim for inline scripts)
    n0 = len(fetched)
    files_text['probe-after.bare'] = "probeAfter = 1\n"
    try:
        impl.bs.execute_script(impl.bs.parse_script("include 'probe-after.bare'"), opts)
    except Exception:  # pylint: disable=broad-except
        pass
    second = fetched[n0:]
    del fetched[n0:]
    return res, fetched, logs, user, second


def run_ref(w, root, inline, nofetch=False):
    logs = []
    g = {}

    def fetch(loc):
        v = w.files.get(normloc(loc))
        if v is None or nofetch:
            return None
        if v[0] == 'broken':
            return ('parser-error', loc)
        if v[0] == 'blank':
            return []
        return v[1]['statements']
    vm = jumpvm.JumpVM(g, logs, max_statements=20000, fetch=fetch, base=None if inline else root, system_prefix=w.sys)
    try:
        vm.run_model(w.files[normloc(root)][1])
        res = ('ok', None)
    except jumpvm.VMRuntimeError as e:
        if e.kind == 'include-failed':
            res = ('include-failed', normloc(re.search(r'Include of "(.*)" failed', e.message).group(1)))
        elif e.kind == 'include-parser-error':
            res = ('include-parser-error', normloc(e.message))
        else:
            res = ('runtime-error', e.message)
    except jumpvm.interp.RefRuntimeError as e:
        res = ('runtime-error', 'Undefined function "%s"' % e.name)
    user = {k: ('<function>' if isinstance(v, (jumpvm.VMFunction, jumpvm.interp.RefPartial, jumpvm.interp.LibraryRef)) else v) for k, v in g.items()}
    return res, [normloc(u) for u in vm.fetched], logs, user


def check_world(w, root, inline, missing_mode, as_built=False):
    d = {'kind': 'world', 'root': root, 'inline': inline, 'system_prefix': w.sys, 'missing_mode': missing_mode, 'as_built': as_built,
         'files': {loc: (v[0], v[1]) for loc, v in w.files.items()}}
    if as_built:
        try:
            impl.bs.validate_script(copy.deepcopy(w.files[normloc(root)][1]))
        except Exception as e:  # pylint: disable=broad-except
            raise Violation('harness: the built root model is not schema-valid: %s' % e, d, 'harness-invalid-model') from e
    a = run_impl(w, root, inline, missing_mode, as_built)
    if a[0][0] == 'recursion':
        return None
    b = run_ref(w, root, inline, missing_mode == 'nofetch')
    if a[1] != b[1] and missing_mode != 'nofetch':        # (without a fetch function there is nothing to observe but the error)
        n = next((i for i, (x, y) in enumerate(zip(a[1], b[1])) if x != y), min(len(a[1]), len(b[1])))
        raise Violation('fetch %d is %r, resolving against the including file gives %r (all: %r vs %r)' % (
            n, a[1][n] if n < len(a[1]) else None, b[1][n] if n < len(b[1]) else None, a[1], b[1]), d, 'fetch-sequence')
    if a[0] != b[0]:
        raise Violation('run ends with %r, expected %r' % (a[0], b[0]), d, 'outcome:' + b[0][0])
    if a[2] != b[2]:
        raise Violation('marker sequence %r, expected %r' % (a[2], b[2]), d, 'markers')
    if a[3] != b[3]:
        raise Violation('final globals %r, expected %r' % (a[3], b[3]), d, 'globals')
    want_second = [normloc(jumpvm.resolve(None if inline else root, 'probe-after.bare'))]
    if a[4] != want_second and missing_mode != 'nofetch':
        raise Violation('a second script run with the same options object fetched its include from %r, the configured resolution gives %r '
                        '(state left behind by the first run, which ended with %r)' % (a[4], want_second, a[0]), d, 'second-run-resolution')
    return b


def plan(tier):
    k = 10 if tier == 'quick' else 16
    return [{'kind': 'worlds', 'n': 2000 if tier == 'quick' else 15000, 'k': i} for i in range(k)]


def run_shard(ctx, spec):
    def prop(seed, size):
        rnd = random.Random(seed)
        w, root, inline, missing_mode = gen_world(rnd, size)
        as_built = rnd.random() < 0.4
        try:
            b = check_world(w, root, inline, missing_mode, as_built)
        except RecursionError:
            # the reference itself did not terminate: the world has an unguarded include cycle, which the generator is meant to exclude (ASSUMPTIONS);
            # counted, never a verdict
            ctx.discard('world-with-unguarded-cycle')
            return
        if b is None:
            ctx.discard('recursion')
            return
        nt = w.depth_seen >= 3 and 'directory-or-base-change' in w.classes and 'include-after-nested-include' in w.classes
        ctx.case(digest([root, inline, w.sys, {k: v for k, v in w.files.items()}]), nt,
                 ['world', 'root-model-as-built' if as_built else 'root-parsed-from-text', 'outcome:' + b[0][0], 'depth=%d' % w.depth_seen, 'sys:' + str(w.sys)] + sorted(w.classes),
                 {'root': root, 'inline': inline, 'systemPrefix': w.sys, 'files': {k: ('\n'.join(gm.print_model(v[1])) if v[0] == 'ok' else v[1]) for k, v in list(w.files.items())[:6]}})
    run_hypothesis(ctx, prop, [st.integers(0, 2 ** 32 - 1), st.integers(1, 4)], spec['n'], salt=spec['k'])


def replay(detail):
    w = World(random.Random(0), detail['system_prefix'])
    w.files = {loc: (v[0], v[1]) for loc, v in detail['files'].items()}
    check_world(w, detail['root'], detail['inline'], detail.get('missing_mode', 'none'), detail.get('as_built', False))
