"""C11 - value comparison is a total preorder and every consumer agrees with it."""
import itertools
import random

from hypothesis import strategies as st

from pbt.common import impl
from pbt.common.core import Violation, dec, digest, enc, run_hypothesis
from pbt.gen import values as gv
from pbt.refsem.values import is_number, ref_compare, ref_type

ID = 'C11'
LEVEL = 'exploration'
RULE = ('Fixed pool of ~380 values of all nine types (nested to depth 3, date/naive/aware datetimes, int/float/bool look-alikes, empty '
        'containers, functions, regexes; NaN excluded). All ordered pairs exhaustively (laws: range, reflexive, antisymmetric, null '
        'least, agreement with the reference comparison where the statement fixes the answer, invariance under int<->float '
        'respelling, the six operators as sign tests through scripts and expressions); triples exhaustively over a core and at random '
        'over the pool (transitivity, equality is a congruence); Hypothesis arrays/tables drawn from the pool for arraySort, dataSort, '
        'mathMin/mathMax, arrayIndexOf/arrayLastIndexOf. Non-trivial: the values have different types or one is a container '
        '(triples: >= 2 types); distinct by content hash.')
RULE += ' Also: integers beyond the double range (2**1024, 2**1100 +- 1), aware datetimes whose UTC offsets are 26 hours apart; dataSort specifications that name a field twice with opposite directions and entries without a direction.'
RULE += (' History family: a container is compared, edited in place (members replaced, added, removed, at any depth) and compared again; '
         'every comparison, operator and sort of the edited container must equal that of a freshly built equal container (no answer may '
         'depend on what was compared before).')
RULE += ' Round 8: arrays of 16-40 elements that differ in one place by a boolean facing the number it equals in Python (also nested), containers nested 205-400 levels deep.'
ASSUMPTIONS = [
    'NaN is excluded (the property quantifies over non-NaN values)',
    'the reference answer is asserted only where the statement fixes it: objects compared position-wise must have identical key sets',
    'aware datetimes are compared in the process time zone (UTC in the sandbox unless TZ is set)',
]

OPS = {'<': lambda c: c < 0, '<=': lambda c: c <= 0, '>': lambda c: c > 0, '>=': lambda c: c >= 0, '==': lambda c: c == 0, '!=': lambda c: c != 0}
_cache = {}


def pool():
    if 'pool' not in _cache:
        _cache['pool'] = gv.comparison_pool()
    return _cache['pool']


def core_pool(n):
    p = pool()
    rnd = random.Random(20260101)
    idx = list(range(len(p)))
    # always keep one or two of each type, then fill
    rnd.shuffle(idx)
    return [p[i] for i in sorted(idx[:n])]


def compare(a, b):
    try:
        return impl.bs.SCRIPT_FUNCTIONS['systemCompare']([a, b], None)
    except Exception as e:  # pylint: disable=broad-except
        raise Violation('systemCompare(%s, %s) raised %s: %s - any two values can be compared' % (ref_type(a), ref_type(b), type(e).__name__, str(e)[:80]),
                        {'kind': 'pair', 'a': enc(a), 'b': enc(b)}, 'compare-raises:' + type(e).__name__) from e


def models():
    if 'models' not in _cache:
        _cache['models'] = {op: impl.bs.parse_script('return x %s y' % op) for op in OPS}
        _cache['exprs'] = {op: impl.bs.parse_expression('x %s y' % op) for op in OPS}
        for name, src in (('cmp', 'return systemCompare(x, y)'), ('sort', 'return arraySort(x)'), ('min', 'return mathMin(a0, a1, a2, a3, a4)'),
                          ('idx', 'return arrayNew(arrayIndexOf(x, y), arrayLastIndexOf(x, y))'),
                          ('dsort', 'return dataSort(x, y)')):
            _cache['models'][name] = impl.bs.parse_script(src)
    return _cache['models'], _cache['exprs']


def respell(v):
    """Flip the int/float spelling of every integral number (|n| < 2**53)."""
    if is_number(v):
        if isinstance(v, int) and abs(v) < 2 ** 53:
            return float(v)
        if isinstance(v, float) and v == int(v) and abs(v) < 2 ** 53 and not (v == 0 and str(v)[0] == '-'):
            return int(v)
        return v
    if isinstance(v, list):
        return [respell(x) for x in v]
    if isinstance(v, dict):
        return {k: respell(x) for k, x in v.items()}
    return v


def ref_fixed(a, b):
    """True if the property statement determines compare(a, b) (objects met position-wise have equal key sets)."""
    ta, tb = ref_type(a), ref_type(b)
    if ta != tb:
        return True
    if ta == 'array':
        for x, y in zip(a, b):
            if not ref_fixed(x, y):
                return False
            if ref_compare(x, y) != 0:
                return True
        return True
    if ta == 'object':
        if sorted(a) != sorted(b):
            return False
        for k in sorted(a):
            if not ref_fixed(a[k], b[k]):
                return False
            if ref_compare(a[k], b[k]) != 0:
                return True
    return True


def is_container(v):
    return isinstance(v, (list, dict))


def check_pair(a, b, with_ops=True):
    d = {'kind': 'pair', 'a': enc(a), 'b': enc(b)}
    try:
        c = compare(a, b)
        r = compare(b, a)
    except Exception as e:  # pylint: disable=broad-except
        raise Violation('systemCompare raised %s: %s' % (type(e).__name__, e), d, 'compare-raises') from e
    if c not in (-1, 0, 1) or isinstance(c, bool):
        raise Violation('compare result %r not in {-1,0,1}' % (c,), d, 'range')
    if c != -r:
        raise Violation('antisymmetry: compare(a,b)=%r compare(b,a)=%r' % (c, r), d, 'antisymmetry')
    if a is b and c != 0:
        raise Violation('not reflexive', d, 'reflexive')
    if a is None and b is not None and c != -1:
        raise Violation('null is not least', d, 'null-least')
    if ref_fixed(a, b):
        e = ref_compare(a, b)
        if c != e:
            raise Violation('compare=%r, the documented order gives %r' % (c, e), d, 'reference-order')
    ra = respell(a)
    if compare(ra, b) != c or compare(b, ra) != r or compare(ra, a) != 0:
        raise Violation('int/float respelling of an operand changes the comparison', d, 'respelling')
    if with_ops:
        ms, es = models()
        for op, f in OPS.items():
            want = f(c)
            got = impl.bs.execute_script(ms[op], {'globals': {'x': a, 'y': b}})
            got2 = impl.bs.evaluate_expression(es[op], {'globals': {'x': a, 'y': b}})
            if got is not want or got2 is not want:
                raise Violation('operator %s gives %r/%r but compare is %r' % (op, got, got2, c), dict(d, op=op), 'operator-sign-test')
        got = impl.bs.execute_script(ms['cmp'], {'globals': {'x': a, 'y': b}})
        if got != c:
            raise Violation('systemCompare from a script gives %r, direct call %r' % (got, c), d, 'script-compare')
    return c


def check_triple(a, b, c3):
    d = {'kind': 'triple', 'a': enc(a), 'b': enc(b), 'c': enc(c3)}
    ab, bc, ac = compare(a, b), compare(b, c3), compare(a, c3)
    if ab <= 0 and bc <= 0 and ac > 0:
        raise Violation('not transitive: a<=b, b<=c but a>c', d, 'transitivity')
    if ab >= 0 and bc >= 0 and ac < 0:
        raise Violation('not transitive: a>=b, b>=c but a<c', d, 'transitivity')
    if ab == 0 and bc != ac:
        raise Violation('equality is not a congruence: a==b but compare(b,c)=%r, compare(a,c)=%r' % (bc, ac), d, 'congruence')
    if bc == 0 and ab != ac:
        raise Violation('equality is not a congruence: b==c but compare(a,b)=%r, compare(a,c)=%r' % (ab, ac), d, 'congruence')


def check_consumers(arr, probe_value, desc, second):
    """arr: list of pool values; exercised through scripts."""
    d = {'kind': 'consumers', 'arr': enc(arr), 'v': enc(probe_value), 'desc': desc, 'second': second}
    ms, _ = models()
    # arraySort
    work = list(arr)
    out = impl.run_model(ms['sort'], {'x': work})
    if out.kind != 'ok' or not isinstance(out.value, list):
        raise Violation('arraySort failed: %r' % (out,), d, 'sort-fails')
    s = out.value
    if sorted(map(id, s)) != sorted(map(id, arr)):
        raise Violation('arraySort result is not a permutation of its input', d, 'sort-permutation')
    for i in range(len(s) - 1):
        if compare(s[i], s[i + 1]) > 0:
            raise Violation('arraySort result not ordered at %d' % i, d, 'sort-ordered')
    # min/max (up to 5 args)
    if arr:
        a5 = arr[:5]
        g = {'a%d' % i: (a5[i] if i < len(a5) else a5[0]) for i in range(5)}
        for name, sign in (('mathMin', -1), ('mathMax', 1)):
            fn = impl.bs.SCRIPT_FUNCTIONS[name]
            got = impl.run_model(impl.bs.parse_script('return %s(a0, a1, a2, a3, a4)' % name), dict(g)).value
            vals = list(g.values())
            if not any(got is x for x in vals):
                raise Violation('%s returned a value that is not one of its arguments' % name, d, 'minmax-argument')
            if any(compare(got, x) * sign < 0 for x in vals):
                raise Violation('%s result is not least/greatest' % name, d, 'minmax-extreme')
            direct = fn(list(arr), None)
            if not any(direct is x for x in arr) or any(compare(direct, x) * sign < 0 for x in arr):
                raise Violation('%s over %d values is not a least/greatest argument' % (name, len(arr)), d, 'minmax-extreme')
    # indexOf / lastIndexOf
    if not callable(probe_value):
        got = impl.run_model(ms['idx'], {'x': list(arr), 'y': probe_value}).value
        exp_first = next((i for i, x in enumerate(arr) if compare(x, probe_value) == 0), -1)
        exp_last = next((i for i in range(len(arr) - 1, -1, -1) if compare(arr[i], probe_value) == 0), -1)
        if got != [exp_first, exp_last]:
            raise Violation('arrayIndexOf/arrayLastIndexOf give %r, compare-based answer %r' % (got, [exp_first, exp_last]), d, 'indexof')
    # dataSort: stable, ordered by compare on the key (with direction), permutation
    rows = [{'k': v, 'j': (i * 7) % 3, '_i': i} for i, v in enumerate(arr)]
    # `second` selects the shape of the sort specification (0/False: one field; 1/True: two fields; 2-4: a field named twice with
    # opposite directions - only its first entry can matter -, entries without a direction (ascending))
    sorts = [[['k', desc]], [['j', not desc], ['k', desc]], [['k', desc], ['j', desc], ['k', not desc]], [['k'], ['j', True], ['k', True]],
             [['j', desc], ['j', not desc], ['k', desc]]][int(second) % 5]
    out = impl.run_model(ms['dsort'], {'x': list(rows), 'y': sorts})
    ds = out.value
    if out.kind != 'ok' or not isinstance(ds, list) or sorted(map(id, ds)) != sorted(map(id, rows)):
        raise Violation('dataSort result is not a permutation of the rows: %r' % (out,), d, 'datasort-permutation')
    for i in range(len(ds) - 1):
        c = 0
        for entry in sorts:
            field, dsc = entry[0], (entry[1] if len(entry) > 1 else False)
            c = compare(ds[i][field], ds[i + 1][field])
            c = -c if dsc else c
            if c:
                break
        if c > 0:
            raise Violation('dataSort result not ordered at %d' % i, d, 'datasort-ordered')
        if c == 0 and ds[i]['_i'] > ds[i + 1]['_i']:
            raise Violation('dataSort is not stable at %d' % i, d, 'datasort-stable')


def fresh(v):
    """An equal value sharing no container with v (leaves are shared)."""
    if isinstance(v, list):
        return [fresh(x) for x in v]
    if isinstance(v, dict):
        return {k: fresh(x) for k, x in v.items()}
    return v


def _edit(rnd, v, p, steps):
    """One in-place edit somewhere inside container v; appends a replayable step."""
    path = []
    cur = v
    while True:
        kids = [(k, x) for k, x in (enumerate(cur) if isinstance(cur, list) else cur.items()) if is_container(x)]
        if kids and rnd.random() < 0.4:
            k, cur = rnd.choice(kids)
            path.append(k)
        else:
            break
    new = fresh(p[rnd.randrange(len(p))])
    keys = list(range(len(cur))) if isinstance(cur, list) else list(cur)
    r = rnd.random()
    if keys and r < 0.7:
        k = rnd.choice(keys)
        op = 'set'
    elif keys and r < 0.8:
        k = rnd.choice(keys)
        op = 'del'
    else:
        k = len(cur) if isinstance(cur, list) else rnd.choice(['a', 'b', 'k', 'zz', ''])
        op = 'add'
    steps.append({'path': path, 'op': op, 'key': k, 'value': enc(new)})
    _apply_edit(v, steps[-1], new)


def _apply_edit(v, step, new=None):
    cur = v
    for k in step['path']:
        cur = cur[k]
    if new is None:
        new = dec(step['value'])
    if step['op'] == 'del':
        del cur[step['key']]
    elif step['op'] == 'add' and isinstance(cur, list):
        cur.append(new)
    else:
        cur[step['key']] = new


def check_history(a0, b0, steps, d=None):
    """a0 (container) is compared with b0, edited in place step by step, and compared again after every step."""
    d = d or {'kind': 'history', 'a': enc(a0), 'b': enc(b0), 'steps': steps}
    a, b = fresh(a0), fresh(b0)
    ms, _ = models()
    for n in range(len(steps) + 1):
        if n:
            _apply_edit(a, steps[n - 1])
        fa, fb = fresh(a), fresh(b)
        want = compare(fa, fb)
        for x, y, sign, what in ((a, b, 1, 'compare(edited, other)'), (b, a, -1, 'compare(other, edited)'), (a, fb, 1, 'compare(edited, fresh other)'),
                                 (fa, b, 1, 'compare(fresh equal, other)')):
            got = compare(x, y)
            if got != sign * want:
                raise Violation('after %d in-place edit(s) %s = %r, the same comparison of freshly built equal values gives %r' % (n, what, got, sign * want),
                                dict(d, step=n), 'history-compare')
        if compare(a, fa) != 0 or compare(fa, a) != 0 or compare(a, a) != 0:
            raise Violation('after %d in-place edit(s) the container does not compare equal to a freshly built equal container' % n, dict(d, step=n),
                            'history-equal')
        eq = impl.bs.execute_script(ms['=='], {'globals': {'x': a, 'y': b}})
        if eq is not (want == 0):
            raise Violation('after %d in-place edit(s) the == operator gives %r, fresh values compare %r' % (n, eq, want), dict(d, step=n), 'history-operator')
        out = impl.run_model(ms['sort'], {'x': [a, b, a]})
        exp = impl.run_model(ms['sort'], {'x': [fa, fb, fa]})
        pos = [0 if x is a else 1 for x in out.value] if out.kind == 'ok' else None
        epos = [0 if x is fa else 1 for x in exp.value] if exp.kind == 'ok' else None
        if pos != epos:
            raise Violation('after %d in-place edit(s) arraySort orders the edited container %r, freshly built equal values %r' % (n, pos, epos),
                            dict(d, step=n), 'history-sort')
        idx = impl.run_model(ms['idx'], {'x': [b, a, fb], 'y': fa}).value
        eidx = impl.run_model(ms['idx'], {'x': [fb, fa, fb], 'y': fa}).value
        if idx != eidx:
            raise Violation('after %d in-place edit(s) arrayIndexOf/arrayLastIndexOf give %r, with freshly built equal values %r' % (n, idx, eidx),
                            dict(d, step=n), 'history-indexof')


def plan(tier):
    n = len(pool())
    parts = 12 if tier == 'quick' else 16
    specs = [{'kind': 'pairs', 'part': i, 'parts': parts} for i in range(parts)]
    core_n = 40 if tier == 'quick' else 110
    tparts = 2 if tier == 'quick' else 16
    specs += [{'kind': 'triples', 'core': core_n, 'part': i, 'parts': tparts} for i in range(tparts)]
    rparts = 2 if tier == 'quick' else 16
    specs += [{'kind': 'rtriples', 'n': 60000 if tier == 'quick' else 600000, 'k': i} for i in range(rparts)]
    specs += [{'kind': 'consumers', 'n': 2000 if tier == 'quick' else 20000, 'k': i} for i in range(4 if tier == 'quick' else 16)]
    specs += [{'kind': 'history', 'n': 1500 if tier == 'quick' else 40000, 'k': i} for i in range(2 if tier == 'quick' else 16)]
    assert n > 300
    return specs


def nontrivial_pair(a, b):
    return ref_type(a) != ref_type(b) or is_container(a) or is_container(b)


def run_shard(ctx, spec):
    p = pool()
    n = len(p)
    if spec['kind'] == 'pairs':
        for ix in range(spec['part'], n * n, spec['parts']):
            i, j = divmod(ix, n)
            a, b = p[i], p[j]
            try:
                check_pair(a, b)
            except Violation as v:
                ctx.violation(v)
            ctx.case(digest('p%d,%d' % (i, j)), nontrivial_pair(a, b), ['pair:%s/%s' % (ref_type(a), ref_type(b))],
                     {'a': a, 'b': b})
        ctx.exhaustive['all ordered pairs of the %d-value pool' % n] = True
        return
    if spec['kind'] == 'triples':
        core = core_pool(spec['core'])
        m = len(core)
        for ix in range(spec['part'], m ** 3, spec['parts']):
            i, r = divmod(ix, m * m)
            j, k = divmod(r, m)
            try:
                check_triple(core[i], core[j], core[k])
            except Violation as v:
                ctx.violation(v)
            types = {ref_type(core[i]), ref_type(core[j]), ref_type(core[k])}
            ctx.case(digest('t%d,%d,%d' % (i, j, k)), len(types) >= 2, ['triple-core'])
        ctx.exhaustive['all triples of a %d-value core' % m] = True
        return
    if spec['kind'] == 'rtriples':
        rnd = random.Random(ctx.seed * 1000 + spec['k'])
        for _ in range(spec['n']):
            i, j, k = rnd.randrange(n), rnd.randrange(n), rnd.randrange(n)
            if rnd.random() < 0.5:   # bias towards related values: neighbours in the pool are often same-typed
                j = min(n - 1, max(0, i + rnd.randint(-6, 6)))
                k = min(n - 1, max(0, i + rnd.randint(-6, 6)))
            try:
                check_triple(p[i], p[j], p[k])
            except Violation as v:
                ctx.violation(v)
            types = {ref_type(p[i]), ref_type(p[j]), ref_type(p[k])}
            ctx.case(digest('t%d,%d,%d' % (i, j, k)), len(types) >= 2, ['triple-random'])
        return
    if spec['kind'] == 'history':
        containers = [i for i, x in enumerate(p) if is_container(x) and x]

        def hprop(seed):
            rnd = random.Random(seed)
            i = rnd.choice(containers)
            a0 = p[i]
            r = rnd.random()
            b0 = a0 if r < 0.4 else p[min(n - 1, max(0, i + rnd.randint(-6, 6)))] if r < 0.8 else p[rnd.randrange(n)]
            steps = []
            a = fresh(a0)
            for _ in range(rnd.randint(1, 4)):
                _edit(rnd, a, p, steps)
            check_history(a0, b0, steps)
            ctx.case(digest(enc([a0, b0, steps])), True, ['history', 'steps=%d' % len(steps)] + sorted({'edit:' + s_['op'] for s_ in steps}),
                     {'a': a0, 'b': b0, 'steps': steps})
        run_hypothesis(ctx, hprop, [st.integers(0, 2 ** 40)], spec['n'], salt=100 + spec['k'])
        return
    # consumers, Hypothesis
    elem = st.sampled_from(p)
    related = st.integers(0, n - 1).flatmap(lambda i: st.lists(st.sampled_from(p[max(0, i - 8):i + 8]), max_size=8))

    def prop(arr, v, desc, second):
        check_consumers(arr, v, desc, second)
        types = {ref_type(x) for x in arr}
        ctx.case(digest(enc([arr, v, desc, second])), len(types) >= 2 or any(is_container(x) for x in arr),
                 ['consumers', 'len=%d' % min(len(arr), 5)], {'array': arr, 'search': v})
    run_hypothesis(ctx, prop, [st.one_of(st.lists(elem, max_size=8), related), elem, st.booleans(), st.integers(0, 4)],
                   spec['n'], salt=spec['k'])


def replay(detail):
    k = detail.get('kind')
    if k == 'pair':
        a, b = dec(detail['a']), dec(detail['b'])
        if detail.get('same'):
            b = a
        check_pair(a, b)
    elif k == 'history':
        check_history(dec(detail['a']), dec(detail['b']), detail['steps'])
    elif k == 'triple':
        check_triple(dec(detail['a']), dec(detail['b']), dec(detail['c']))
    else:
        check_consumers(dec(detail['arr']), dec(detail['v']), detail['desc'], detail['second'])
