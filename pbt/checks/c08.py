"""C08 - jump-level models execute by the documented statement semantics."""
import copy
import datetime
import itertools
import random

from hypothesis import strategies as st

from pbt.common import impl
from pbt.common.core import CaseTimeout, Violation, ddmin_list, dec, digest, enc, run_hypothesis
from pbt.refsem import jumpvm
from pbt.refsem.values import values_equal
from pbt.checks.c01 import gen_program, make_cc, make_probe

ID = 'C08'
LEVEL = 'exploration'
RULE = ('(a) every statement list of length <= 4 (quick) / <= 5 (thorough; <= 6 is sampled) over the 14-symbol alphabet {log marker, n = n + 1, '
        'jump A|B, jumpif (n < 2) A|B, label A|B (duplicates allowed), return, return n, three one-level function definitions (own labels, a jump '
        'to a label that exists only in the caller, a backward loop), call}, at most one function per list, each executed with n = 0 and n = 5 '
        'under maxStatements 40; (b) seeded random hand-built models of up to 40 statements with functions with parameters, duplicate and '
        'dangling labels, conditional jumps, returns inside functions; (c) the models parse_script produces for C01 programs. Oracle: '
        'independent small-step VM: result or exact error message, marker sequence, statementCount, final globals; the model is deep-equal '
        'before and after; a second and third execution with fresh equal globals give identical observations. Non-trivial: the run takes '
        '>= 1 jump. Distinct by model + initial n.')
RULE += " Also: label names '', '0', 'A b', '__bareScriptLoop0', non-ASCII; conditional jumps on a raw value from the truth table ({} is true, [] is false); spreadsheet aliases in jump conditions (undefined); every 3rd model is also run without caller-supplied globals (options without the member twice, then no options at all under a 10 s deadline) and must equal the run from empty globals. Round 5: odd function names (`f{x}`, `{}`, `''`, quotes) and assignment targets (`''`, `a b`), a function value kept under a second name while the name is defined again and the old body calls its own name, globals that bind library function names."
RULE += ' Round 7: function statements with lastArgArray spelled out as false, or true without any args member; call expressions without the optional args member; label names spelled like the member names of the model (expr, jump, name, statements ...).'
RULE += ' Round 8: after every model a follow-up model that calls the functions it bound runs on the same globals object, once with the options object of the first run and once with a fresh one: outcome, log and statement count must agree (and nothing may reach the log function of the earlier run).'
ASSUMPTIONS = ['models are schema-valid (validate_script is asserted for every generated model)',
               'expression evaluation inside the VM uses the reference evaluator (C03 decides that)']

LIMIT = 40
V = lambda n: {'variable': n}  # noqa: E731


def log_stmt(tag):
    return {'expr': {'expr': {'function': {'name': 'systemLog', 'args': [{'string': tag}]}}}}


def inc_stmt(name='n'):
    return {'expr': {'name': name, 'expr': {'binary': {'op': '+', 'left': V(name), 'right': {'number': 1.0}}}}}


def cond(name='n', k=2.0):
    return {'binary': {'op': '<', 'left': V(name), 'right': {'number': k}}}


FBODIES = [
    [log_stmt('f0'), {'jump': {'label': 'A'}}, log_stmt('f1'), {'label': 'A'}, {'return': {'expr': {'string': 'r'}}}],
    [{'label': 'A'}, inc_stmt(), log_stmt('f'), {'jump': {'label': 'A', 'expr': cond()}}],
    [{'jump': {'label': 'B'}}, log_stmt('f')],
]
SYMS = ['log', 'inc', 'jA', 'jB', 'cA', 'cB', 'lA', 'lB', 'ret', 'retn', 'fn0', 'fn1', 'fn2', 'call']


def build(seq):
    out = []
    for i, s in enumerate(seq):
        if s == 'log':
            out.append(log_stmt('m%d' % i))
        elif s == 'inc':
            out.append(inc_stmt())
        elif s in ('jA', 'jB'):
            out.append({'jump': {'label': s[1]}})
        elif s in ('cA', 'cB'):
            out.append({'jump': {'label': s[1], 'expr': cond()}})
        elif s in ('lA', 'lB'):
            out.append({'label': s[1]})
        elif s == 'ret':
            out.append({'return': {}})
        elif s == 'retn':
            out.append({'return': {'expr': V('n')}})
        elif s.startswith('fn'):
            out.append({'function': {'name': 'ff', 'statements': copy.deepcopy(FBODIES[int(s[2])])}})
        elif s == 'call':
            out.append({'expr': {'name': 'r', 'expr': {'function': {'name': 'ff', 'args': []}}}})
    return {'statements': out}


def observe_impl(model, globals0, limit, host_log_factory=None):
    logs = []
    g = copy.deepcopy(globals0)
    if host_log_factory:
        g.update(host_log_factory(logs))
    opts = {'globals': g, 'logFn': lambda m: logs.append(('log', m)), 'maxStatements': limit}
    try:
        res = ('ok', impl.bs.execute_script(model, opts))
    except impl.bs.RuntimeError as e:
        res = ('runtime-error', str(e))
    except Exception as e:  # pylint: disable=broad-except
        res = ('host-exception', '%s: %s' % (type(e).__name__, e))
    return res, logs, opts.get('statementCount'), g


def observe_ref(model, globals0, limit, host=None):
    logs = []
    g = copy.deepcopy(globals0)
    vm = jumpvm.JumpVM(g, logs, host=host(logs) if host else None, max_statements=limit)
    try:
        res = ('ok', vm.run_model(model))
    except jumpvm.VMRuntimeError as e:
        res = ('runtime-error', e.message)
    except jumpvm.interp.RefRuntimeError as e:
        res = ('runtime-error', 'Undefined function "%s"' % e.name)
    return res, logs, vm.count, g, vm


def user_view(g, is_impl):
    out = {}
    for k, v in g.items():
        if is_impl and k in impl.bs.SCRIPT_FUNCTIONS and v is impl.bs.SCRIPT_FUNCTIONS[k]:
            continue
        if k in ('probe', 'cc'):
            continue
        out[k] = '<function>' if (callable(v) or isinstance(v, jumpvm.VMFunction)) else v
    return out


def check_model(model, globals0, limit=LIMIT, validate=True, hosts=None):
    d = {'kind': 'model', 'model': model, 'globals': enc(globals0), 'limit': limit}
    if validate:
        try:
            impl.bs.validate_script(copy.deepcopy(model))
        except Exception as e:  # pylint: disable=broad-except
            raise Violation('harness: generated model is not schema-valid: %s' % e, d, 'harness-invalid-model') from e
    before = copy.deepcopy(model)
    impl_host = (lambda logs: {'probe': make_probe(logs), 'cc': make_cc(logs, [True, False, True])}) if hosts else None
    ref_host = (lambda logs: {'probe': make_probe(logs), 'cc': make_cc(logs, [True, False, True])}) if hosts else None
    a = observe_impl(model, globals0, limit, impl_host)
    if model != before:
        raise Violation('execute_script modified the model', d, 'model-modified')
    try:
        b = observe_ref(before, globals0, limit, ref_host)
    except jumpvm.interp.Indeterminate:
        return None
    jumps = b[4].count
    if a[0][0] != b[0][0] or (a[0][0] == 'runtime-error' and a[0][1] != b[0][1]):
        raise Violation('execution ends with %r, the statement semantics give %r' % (a[0], b[0]), d, 'outcome')
    if a[0][0] == 'ok' and not values_equal(a[0][1], b[0][1], lambda x, y: True):
        raise Violation('result %r, the statement semantics give %r' % (a[0][1], b[0][1]), d, 'result')
    if a[1] != b[1]:
        raise Violation('marker sequence %r, the statement semantics give %r' % (a[1][:12], b[1][:12]), d, 'markers')
    if a[2] != b[2]:
        raise Violation('statementCount is %r after the run, %r statements were started' % (a[2], b[2]), d, 'statement-count')
    ua, ub = user_view(a[3], True), user_view(b[3], False)
    if sorted(ua) != sorted(ub) or any(not values_equal(ua[k], ub[k]) for k in ua):
        raise Violation('final globals %r, the statement semantics give %r' % (ua, ub), d, 'globals')
    for _ in range(2):
        again = observe_impl(model, globals0, limit, impl_host)
        if again[0][0] != a[0][0] or again[1] != a[1] or again[2] != a[2] or \
                (again[0][0] == 'ok' and not values_equal(again[0][1], a[0][1], lambda x, y: True)) or (again[0][0] != 'ok' and again[0] != a[0]):
            raise Violation('re-executing the same model with equal globals gives different observations', d, 're-execution')
        if model != before:
            raise Violation('execute_script modified the model on re-execution', d, 'model-modified')
    if not hosts:
        check_followup(model, globals0, limit, d)
    _counter[0] += 1
    if not hosts and _counter[0] % 3 == 1:
        # nobody listens: without a logFn the log statements still run (their arguments are evaluated - calls in them happen), only the text goes nowhere
        g2 = copy.deepcopy(globals0)
        try:
            res2 = ('ok', impl.bs.execute_script(model, {'globals': g2, 'maxStatements': limit}))
        except impl.bs.RuntimeError as e:
            res2 = ('runtime-error', str(e))
        except Exception as e:  # pylint: disable=broad-except
            res2 = ('host-exception', '%s: %s' % (type(e).__name__, e))
        u2 = user_view(g2, True)
        if res2[0] != a[0][0] or (res2[0] != 'ok' and res2 != a[0]) or (res2[0] == 'ok' and not values_equal(res2[1], a[0][1], lambda x, y: True)) or \
                sorted(u2) != sorted(ua) or any(not values_equal(u2[k], ua[k]) for k in ua):
            raise Violation('without a logFn the run ends with %r and globals %r; with one it ends with %r and globals %r' % (res2, u2, a[0], ua), dict(d, how='no-logFn'),
                            'no-logfn-run')
    if not hosts and _counter[0] % 3 == 0:
        # the same model run by a host that supplies no globals (options without the member, or no options at all): every such run
        # starts from empty globals, whatever earlier runs in this process left behind
        try:
            b0 = observe_ref(before, {}, limit, None)
        except jumpvm.interp.Indeterminate:
            return b
        for how in ('no-globals-member', 'no-globals-member', 'no-options'):
            if how == 'no-options' and b0[0][0] == 'runtime-error' and b0[0][1].startswith('Exceeded'):
                continue        # (without options the default budget of 1e9 statements applies: not run)
            if how == 'no-options' and _no_options_hangs[0]:
                continue        # (already reported in this process: every further such run would cost its 10 s deadline)
            logs = []
            opts = {'logFn': lambda m: logs.append(('log', m)), 'maxStatements': limit} if how == 'no-globals-member' else None
            try:
                # (the reference run ended within `limit` statements, so this run ends in milliseconds - unless state left behind by an earlier
                # run keeps it going: without options nothing but the default budget of 1e9 statements would stop it)
                res = ('ok', _with_deadline(10.0, lambda: impl.bs.execute_script(model, opts) if opts is not None else impl.bs.execute_script(model)))
            except CaseTimeout:
                res = ('host-exception', 'still running after 10 s')
                _no_options_hangs[0] = True
            except impl.bs.RuntimeError as e:
                res = ('runtime-error', str(e))
            except Exception as e:  # pylint: disable=broad-except
                res = ('host-exception', '%s: %s' % (type(e).__name__, e))
            if res[0] != b0[0][0] or (res[0] == 'runtime-error' and res[1] != b0[0][1]) or (res[0] == 'ok' and not values_equal(res[1], b0[0][1], lambda x, y: True)) or \
                    (opts is not None and logs != b0[1]):
                raise Violation('run without caller-supplied globals (%s) ends with %r %r, the statement semantics from empty globals give %r %r' % (
                    how, res, logs[:6], b0[0], b0[1][:6]), dict(d, how=how), 'no-globals-run')
    return b


_counter = [0]
_no_options_hangs = [False]


def _run(model, opts):
    try:
        return ('ok', impl.bs.execute_script(model, opts))
    except impl.bs.RuntimeError as e:
        return ('runtime-error', str(e))
    except Exception as e:  # pylint: disable=broad-except
        return ('host-exception', '%s: %s' % (type(e).__name__, e))


def check_followup(model, globals0, limit, d):
    """A second model that calls the functions the first one bound, run on the same globals object: once with the SAME options object as the first run and
    once with a fresh options object (own log function, own count). Both second runs must agree in outcome, log and statement count - whatever the first
    run did (completed, raised, ran out of budget): the options of a run belong to that run, bound functions belong to the globals."""
    names = []
    for s_ in model['statements']:
        if 'function' in s_ and s_['function']['name'] not in names:
            names.append(s_['function']['name'])
    follow = {'statements': [log_stmt('phase2')] + [{'expr': {'name': 'r2', 'expr': {'function': {'name': n, 'args': [{'number': 1.0}]}}}} for n in names[:3]] +
              [log_stmt('phase2 end'), {'return': {'expr': {'variable': 'r2'}}}]}
    seen = []
    for fresh in (False, True):
        logs1 = []
        g = copy.deepcopy(globals0)
        opts1 = {'globals': g, 'logFn': lambda m, logs1=logs1: logs1.append(('log', m)), 'maxStatements': limit}
        _run(model, opts1)
        n1 = len(logs1)
        if fresh:
            logs2 = []
            opts2 = {'globals': g, 'logFn': lambda m, logs2=logs2: logs2.append(('log', m)), 'maxStatements': limit}
            res2 = _run(follow, opts2)
            if len(logs1) != n1:
                raise Violation('a run with its own options object and log function wrote %r to the log function of the EARLIER run' % (logs1[n1:][:3],), dict(d, followup=follow),
                                'followup-logs-to-earlier-run')
            seen.append((res2, logs2, opts2.get('statementCount')))
        else:
            res2 = _run(follow, opts1)
            seen.append((res2, logs1[n1:], opts1.get('statementCount')))
    (ra, la, ca), (rb, lb, cb) = seen
    if ra[0] != rb[0] or (ra[0] != 'ok' and ra != rb) or (ra[0] == 'ok' and not values_equal(ra[1], rb[1], lambda x, y: True)) or la != lb or ca != cb:
        raise Violation('a follow-up run that calls the bound functions gives %r, %d log entries, count %r with the options object of the first run, but %r, %d log entries, '
                        'count %r with a fresh options object' % (ra, len(la), ca, rb, len(lb), cb), dict(d, followup=follow), 'followup-depends-on-options-object')


def _with_deadline(seconds, fn):
    import signal
    from pbt.common.core import _alarm
    signal.signal(signal.SIGALRM, _alarm)
    before = signal.setitimer(signal.ITIMER_REAL, seconds)
    try:
        return fn()
    finally:
        signal.setitimer(signal.ITIMER_REAL, before[0])        # (back to the per-case watchdog of run_hypothesis, if one was armed)


# ---- random hand-built models -----------------------------------------------------------------------------------------

LIBRARY_EDGE_NAMES = ['urlEncodeComponent', 'arrayCopy', 'urlEncode', 'systemType', 'arrayDelete', 'stringUpper', 'mathSqrt', 'regexTest']     # first / last names of the library table and a few others
LABEL_POOLS = [['A', 'B', 'C', 'D']] * 3 + [['__bareScriptLoop0', '__bareScriptLoop0', '__bareScriptLoop12', 'A'], ['__bareScriptLoop', '__bareScriptLoop', '__bareScriptContinue0'],
               ['', 'B', '0', 'A b'], ['__bareScriptDone0', '__bareScriptLoop0', 'A', ''], ['label', '\u00e9', 'a.b', 'A'], ['A', 'a', ' A', 'A '],
               # labels spelled like the member names of the model itself
               # labels that look like a composed key: <statement index>:<label>, <function name>.<label>
               ['1:A', 'A', '0:A', '2:A'], ['A', '1:A', 'ff:A', 'ff.A'], ['3:B', 'B', '1:B', ':B'],
               ['expr', 'exprLoop', 'jump', 'name'], ['next_expr', 'return', 'function', 'include'], ['statements', 'label', 'args', 'includes']]
# values a conditional jump may test directly (the documented truth table: null, false, 0, '', [] are false - everything else, the empty object included, is true)
TRUTH_POOL = [None, True, False, 0.0, -0.0, 1.0, 0, 2, '', '0', 'x', [], [0.0], {}, {'a': None}, float('nan'), datetime.datetime(1970, 1, 1), datetime.date(2020, 1, 1)]


FUNCTION_NAME_POOLS = [['ff', 'gg', 'hh']] * 4 + [['f{x}', '{}', 'g}'], ['ff', 'open{', '%s'], ['a b', 'ff', ''], ['f"q', "g'h", 'ff']]
ASSIGN_NAMES = ['w', 'w', 'w', '', 'a b', '{0}', 'n']


def random_model(rnd, size):
    labels = rnd.choice(LABEL_POOLS)
    fnames = rnd.choice(FUNCTION_NAME_POOLS)
    counter = [0]

    def stmts(n, in_func, depth=0):
        out = []
        for _ in range(n):
            k = rnd.random()
            counter[0] += 1
            if k < 0.2:
                out.append(log_stmt('m%d' % counter[0]))
            elif k < 0.32:
                out.append(inc_stmt(rnd.choice(['n', 'k'])))
            elif k < 0.44:
                out.append({'jump': {'label': rnd.choice(labels)}})
            elif k < 0.47:
                out.append({'jump': {'label': rnd.choice(labels), 'expr': rnd.choice([V('t0'), V('t1'), V('t0'), {'unary': {'op': '!', 'expr': V('t1')}}])}})      # a raw value as the condition
            elif k < 0.48:
                # a spreadsheet alias (abs, len ...) is not defined in a script - not in a jump condition either
                out.append({'jump': {'label': rnd.choice(labels), 'expr': {'function': {'name': rnd.choice(['abs', 'len', 'max', 'round', 'text']), 'args': [V('n')]}}}})
            elif k < 0.5:
                # a variable set to a constant / read before it is assigned in this run (null in a fresh run)
                wname = rnd.choice(ASSIGN_NAMES)
                out.append(rnd.choice([{'expr': {'name': wname, 'expr': {'number': 7.0}}}, {'return': {'expr': V(wname)}},
                                       {'expr': {'expr': {'function': {'name': 'systemLog', 'args': [V(wname)]}}}},
                                       # a function value kept under a second name (the alias still denotes the OLD function after the name is defined again)
                                       {'expr': {'expr': {'function': {'name': 'systemLog', 'args': [{'function': {'name': rnd.choice(fnames), 'args': [V('n')]}}]}}}},
                                       {'expr': {'name': 'al', 'expr': V(rnd.choice(fnames))}},
                                       {'expr': {'name': 'r', 'expr': {'function': {'name': 'al', 'args': [V('n')]}}}}]))
            elif k < 0.62:
                out.append({'jump': {'label': rnd.choice(labels), 'expr': cond(rnd.choice(['n', 'k']), float(rnd.randint(1, 4)))}})
            elif k < 0.78:
                out.append({'label': rnd.choice(labels)})
            elif k < 0.82:
                out.append({'return': {'expr': V(rnd.choice(['n', 'k', 'a1']))}} if rnd.random() < 0.6 else {'return': {}})
            elif k < 0.9 and (not in_func or (depth < 2 and rnd.random() < 0.4)):
                # (hand-built models may nest function statements: they bind GLOBAL functions wherever they execute)
                name = rnd.choice(fnames)
                body = stmts(rnd.randint(0, 6), True, depth + 1)
                if rnd.random() < 0.25:
                    # the last statement returns a call of the function's own NAME (whatever that name is bound to when the call happens),
                    # guarded by the counter so that the recursion ends
                    body = [inc_stmt('k'), {'jump': {'label': 'tc', 'expr': {'binary': {'op': '>', 'left': V('k'), 'right': {'number': 3.0}}}}}] + body + \
                        [{'return': {'expr': {'function': {'name': name, 'args': [V('a1')]}}}}, {'label': 'tc'}, {'return': {'expr': V('k')}}]
                f = {'name': name, 'statements': body}
                if rnd.random() < 0.6:
                    f['args'] = ['a1', 'a2'][:rnd.randint(1, 2)]
                    if rnd.random() < 0.3:
                        f['lastArgArray'] = True
                    elif rnd.random() < 0.2:
                        f['lastArgArray'] = False        # the optional member spelled out
                elif rnd.random() < 0.3:
                    f['lastArgArray'] = rnd.random() < 0.7     # "..." without any named parameter: every argument is ignored
                out.append({'function': f})
            else:
                args = [rnd.choice([V('n'), {'number': 7.0}, {'string': 's'}]) for _ in range(rnd.randint(0, 3))]
                call = {'function': {'name': rnd.choice(fnames), 'args': args}}
                if not args and rnd.random() < 0.5:
                    del call['function']['args']          # the optional member left out: a call without arguments
                out.append({'expr': {'name': 'r', 'expr': call}} if rnd.random() < 0.6 else {'expr': {'expr': call}})
        return out
    out = stmts(rnd.randint(1, min(40, 4 + 6 * size)), False)
    if rnd.random() < 0.06:
        # an old definition kept under a second name, the name defined again, the old body then calls its own NAME: that is a call of the new binding
        name = rnd.choice(fnames)
        old = {'function': {'name': name, 'args': ['a1'], 'statements': [
            log_stmt('old'), inc_stmt('k'), {'jump': {'label': 'tc', 'expr': {'binary': {'op': '>', 'left': V('k'), 'right': {'number': 3.0}}}}},
            {'return': {'expr': {'function': {'name': name, 'args': [V('a1')]}}}}, {'label': 'tc'}, {'return': {'expr': {'string': 'old-done'}}}]}}
        new = {'function': {'name': name, 'args': ['a1'], 'statements': rnd.choice([
            [log_stmt('new'), {'return': {'expr': {'string': 'new-done'}}}],
            [log_stmt('new'), inc_stmt('k'), {'jump': {'label': 'tc', 'expr': {'binary': {'op': '>', 'left': V('k'), 'right': {'number': 2.0}}}}},
             {'return': {'expr': {'function': {'name': name, 'args': [V('a1')]}}}}, {'label': 'tc'}, {'return': {'expr': V('k')}}]])}}
        rebind = rnd.choice([new, new, {'expr': {'name': name, 'expr': {'number': 5.0}}}, {'expr': {'name': name, 'expr': V('null')}}])
        block = [old, {'expr': {'name': 'al', 'expr': V(name)}}, rebind, {'expr': {'name': 'r', 'expr': {'function': {'name': 'al', 'args': [V('n')]}}}},
                 {'expr': {'expr': {'function': {'name': 'systemLog', 'args': [V('r')]}}}}]
        at = rnd.randint(0, len(out))
        out[at:at] = block
    return {'statements': out}


def classify(model, vm_result):
    labels = [s['label'] for s in model['statements'] if 'label' in s]
    classes = []
    if len(labels) != len(set(labels)):
        classes.append('duplicate-label')
    jumps = [s['jump']['label'] for s in model['statements'] if 'jump' in s]
    if any(j not in labels for j in jumps):
        classes.append('dangling-jump')
    if any('function' in s for s in model['statements']):
        classes.append('has-function')
    return classes


def takes_jump(model, globals0, limit):
    """Non-triviality: does the reference run take at least one jump? (measured by instrumenting a VM run)"""
    taken = [0]
    logs = []
    vm = jumpvm.JumpVM(copy.deepcopy(globals0), logs, max_statements=limit)
    orig = vm.run_list

    def counting(statements, loc, base):
        # count by re-walking: cheap approximation - a jump statement whose condition is absent/true
        return orig(statements, loc, base)
    try:
        vm.run_model(model)
    except Exception:  # pylint: disable=broad-except
        pass
    # statements started > statements in straight-line order means a backward jump; use static presence + count heuristic
    return any('jump' in s for s in model['statements']) or any('function' in s and any('jump' in t for t in s['function']['statements']) for s in model['statements'])


def plan(tier):
    maxlen = 4 if tier == 'quick' else 5
    parts = 12 if tier == 'quick' else 16
    specs = [{'kind': 'enum', 'maxlen': maxlen, 'part': i, 'parts': parts} for i in range(parts)]
    if tier == 'thorough':
        specs += [{'kind': 'enum-sample', 'len': 6, 'n': 150000, 'k': i} for i in range(8)]
    k = 2 if tier == 'quick' else 8
    specs += [{'kind': 'random', 'n': 6000 if tier == 'quick' else 30000, 'k': i} for i in range(k)]
    specs += [{'kind': 'lowered', 'n': 1500 if tier == 'quick' else 8000, 'k': i} for i in range(k)]
    return specs


def run_shard(ctx, spec):
    if spec['kind'] in ('enum', 'enum-sample'):
        def do(seq):
            model = build(seq)
            for n0 in (0.0, 5.0):
                try:
                    b = check_model(model, {'n': n0}, LIMIT, validate=False)
                except Violation as v:
                    ctx.violation(v)
                    continue
                jumped = any(s[0] in 'jc' for s in seq) or ('call' in seq and any(s.startswith('fn') for s in seq))
                ctx.case(digest(' '.join(seq) + str(n0)), jumped, ['enum-len%d' % len(seq), 'outcome:' + (b[0][0] if b[0][0] == 'ok' else b[0][1][:12])],
                         {'symbols': list(seq), 'n': n0})
        if spec['kind'] == 'enum':
            ix = 0
            for L in range(1, spec['maxlen'] + 1):
                for seq in itertools.product(SYMS, repeat=L):
                    if sum(1 for s in seq if s.startswith('fn')) > 1:
                        continue
                    ix += 1
                    if ix % spec['parts'] == spec['part']:
                        do(seq)
            ctx.exhaustive['all statement lists of length <= %d over the 14-symbol alphabet x n in {0,5}' % spec['maxlen']] = True
        else:
            rnd = random.Random(ctx.seed * 4099 + spec['k'])
            for _ in range(spec['n']):
                seq = tuple(rnd.choice(SYMS) for _ in range(spec['len']))
                if sum(1 for s in seq if s.startswith('fn')) <= 1:
                    do(seq)
        return
    if spec['kind'] == 'random':
        def prop(seed, size):
            rnd = random.Random(seed)
            model = random_model(rnd, size)
            g = {'n': float(rnd.choice([0, 1, 5])), 'k': 0.0, 't0': copy.deepcopy(rnd.choice(TRUTH_POOL)), 't1': copy.deepcopy(rnd.choice(TRUTH_POOL))}
            if rnd.random() < 0.15:
                # the caller's globals bind the name of a library function themselves (an override, a variable that happens to have the name)
                g[rnd.choice(LIBRARY_EDGE_NAMES)] = rnd.choice([None, 5.0, 'text'])
            try:
                b = check_model(model, g, rnd.choice([40, 40, 200, 7]))
            except Violation as v:
                v.detail['seed'] = seed
                raise
            if b is None:
                ctx.discard('indeterminate')
                return
            # the host may edit a model in place between executions: the SAME list object, changed, must again run by the statement semantics
            for _ in range(rnd.choice([0, 1, 2])):
                stmts_ = model['statements']
                target = stmts_ if rnd.random() < 0.6 else rnd.choice([s_['function']['statements'] for s_ in stmts_ if 'function' in s_] or [stmts_])
                op = rnd.random()
                if op < 0.35 and target:
                    del target[rnd.randrange(len(target))]
                elif op < 0.7:
                    target.insert(rnd.randint(0, len(target)), rnd.choice([{'label': rnd.choice('ABCD')}, log_stmt('edit%d' % len(target)), {'jump': {'label': rnd.choice('ABCD')}}]))
                elif len(target) > 1:
                    i, j = rnd.randrange(len(target)), rnd.randrange(len(target))
                    target[i], target[j] = target[j], target[i]
                try:
                    check_model(model, g, 40)
                except Violation as v:
                    v.detail['edited_in_place'] = True
                    v.bucket += ':after-in-place-edit'
                    raise
            ctx.case(digest([model, g]), takes_jump(model, g, 40), ['random', 'outcome:' + (b[0][0] if b[0][0] == 'ok' else b[0][1][:12])] + classify(model, b),
                     {'model': model, 'globals': g})
        run_hypothesis(ctx, prop, [st.integers(0, 2 ** 32 - 1), st.integers(1, 6)], spec['n'], salt=spec['k'], minimise=minimise)
        return

    def lprop(seed, size):
        rnd = random.Random(seed)
        prog, src, globals0, pg = gen_program(rnd, size)
        globals0 = {k: v for k, v in globals0.items() if not callable(v)}
        model = impl.parse_valid(src, {'kind': 'source', 'source': src})
        b = check_model(model, globals0, 3000, validate=False, hosts=True)
        if b is None:
            ctx.discard('indeterminate')
            return
        ctx.case(digest(src), True, ['lowered', 'outcome:' + (b[0][0] if b[0][0] == 'ok' else b[0][1][:12])], {'source': src[:400]})
    run_hypothesis(ctx, lprop, [st.integers(0, 2 ** 32 - 1), st.integers(1, 4)], spec['n'], salt=20 + spec['k'])


def minimise(v):
    d = v.detail
    if d.get('kind') != 'model':
        return None
    model, g, limit = d['model'], dec(d['globals'], {}), d['limit']

    def fails(stmts):
        try:
            check_model({'statements': stmts}, g, limit)
        except Violation as e:
            return e.bucket == v.bucket
        return False
    if not fails(model['statements']):
        return None
    small = ddmin_list(model['statements'], fails, 300)
    try:
        check_model({'statements': small}, g, limit)
    except Violation as e:
        return e
    return None


def replay(detail):
    check_model(detail['model'], dec(detail['globals'], {}), detail.get('limit', LIMIT), validate=False, hosts='cc' in str(detail['model']) or 'probe' in str(detail['model']))
