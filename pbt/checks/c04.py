"""C04 - scoping, calling convention and host globals behave as documented."""
import copy
import random

from hypothesis import strategies as st

from pbt.common import impl
from pbt.common.core import Violation, dec, digest, enc, run_hypothesis
from pbt.gen import exprs as ge
from pbt.gen import programs as gp
from pbt.gen.programs import call, log_stmt, num, sq
from pbt.refsem import interp
from pbt.refsem.library import LIBRARY_NAMES
from pbt.refsem.values import RefFunction, values_equal
from pbt.checks.c01 import _variants, _valid

ID = 'C04'
LEVEL = 'exploration'
RULE = ('Seeded programs that define up to 4 functions with 0-3 parameters and an optional trailing "..." parameter, calling each other with 0-5 '
        'arguments directly, through a variable holding the function, through systemPartial values (invoked several times) and as arraySort / '
        'arrayIndexOf callbacks; local names deliberately collide with global names, parameter names and function names; functions assign and '
        'read a small shared name pool and use systemGlobalSet/systemGlobalGet; x host configurations whose pre-populated globals shadow '
        'library names with plain values and with host functions and sometimes define a script function with a library name; plus expression '
        'mode with names bound in locals/globals that coincide with spreadsheet built-ins. Oracle: independent reference interpreter (result, '
        'log, final globals) and direct invariants on options["globals"]: same dict object, caller-supplied names the script did not assign '
        'unchanged by identity, every other library name added, a script-defined function replaces the library entry, nothing assigned inside a '
        'function appears in globals unless set through systemGlobalSet. Non-trivial: >= 1 arity mismatch (missing/surplus/"..." with 0 or >= 2 '
        'collected) and >= 1 local/global name collision. Distinct by source + host configuration.')
RULE += ' Also: repeated parameter names; a loop that executes a definition, uses it, re-binds the name (assignment / systemGlobalSet / second definition / if-else definitions) and uses it again; a call whose argument re-binds the called name. Round 5: a comparison function whose only parameter is `...` and which keeps that array; partial applications of library functions that take `...` themselves called without arguments more than once.'
RULE += ' Round 7: functions whose only parameter is `...` (no named parameter); every program is run a second time with the SAME options object and a fresh globals object (same outcome and log, library added to the new globals).'
RULE += ' Round 8: the idioms `value || fallback`, `ok && value`, if(test, a, b) with parameters and locals in the operand that is only sometimes evaluated.'
ASSUMPTIONS = ['arrayLength/arrayGet are never shadowed (the for lowering calls them by name)', 'function names have >= 2 characters']

NAMES = ['xx', 'yy', 'tot', 'aa', 'bb', 'fn0', 'fn1', 'mathMax', 'stringNew']
SHADOWABLE = ['stringNew', 'mathMax', 'mathAbs', 'arrayNew', 'objectNew', 'stringLength', 'mathMin', 'systemType', 'jsonStringify']


def _plain(v, depth=0):
    # (a function value prints as "a function": the implementation's and the reference's function objects have different reprs)
    if callable(v) or isinstance(v, (RefFunction, interp.LibraryRef, interp.RefPartial)):
        return '<function>'
    if isinstance(v, list) and depth < 20:
        return [_plain(x, depth + 1) for x in v]
    if isinstance(v, dict) and depth < 20:
        return {k: _plain(x, depth + 1) for k, x in v.items()}
    return v


def shadow_upper(args, options):
    return 'SHADOW(%s)' % ','.join(str(_plain(a)) for a in args)


def shadow_len(args, options):
    return float(len(args))


HOSTS = {'shadow_upper': shadow_upper, 'shadow_len': shadow_len}


class Gen:
    def __init__(self, rnd):
        self.r = rnd
        self.funcs = []         # (name, params, last)
        self.n = 0
        self.collision = False
        self.partials = []

    def tag(self):
        self.n += 1
        return 'm%d' % self.n

    def atom(self, names):
        r = self.r
        k = r.random()
        if k < 0.45 and names:
            return ('var', r.choice(names))
        if k < 0.8:
            return num(r.choice([0, 1, 2, 3, 5, 10]))
        return sq(r.choice(['s', 't', '']))

    def expr(self, names, d=2):
        r = self.r
        k = r.random()
        if d <= 0 or k < 0.4:
            return self.atom(names)
        if k < 0.48:
            # the idioms `value || fallback`, `ok && value`, if(test, a, b): every operand - also one that is only evaluated when the left operand decides
            # nothing - sees the locals of the call it stands in
            form = r.choice(['||', '&&', 'if', '||', '&&'])
            decided = r.choice([num(0), sq(''), ('var', 'null'), ('var', 'false'), num(1), sq('s'), ('var', 'true')] + ([('var', r.choice(names))] if names else []))
            if form == 'if':
                return call('if', decided, self.atom(names), self.atom(names))
            return ('bin', form, decided, self.atom(names) if r.random() < 0.7 else self.expr(names, d - 1))
        if k < 0.7:
            return ('bin', r.choice(['+', '+', '-', '*']), self.expr(names, d - 1), self.expr(names, d - 1))
        if k < 0.85 and self.funcs:
            return self.call_any(names, d - 1)
        lib = r.choice(['stringNew', 'mathMax', 'mathAbs', 'stringLength'])
        return call(lib, *[self.expr(names, d - 1) for _ in range({'stringNew': 1, 'mathMax': 2, 'mathAbs': 1, 'stringLength': 1}[lib])])

    def call_any(self, names, d):
        r = self.r
        f = r.choice(self.funcs)
        n = len(f[1])
        nargs = r.choice([n, n, max(0, n - 1), n + 1, r.randint(0, 5), 0])
        return call(f[0], *[self.expr(names, d) for _ in range(nargs)])

    def function(self, ix, lib_name=None):
        r = self.r
        name = lib_name or 'fn%d' % ix
        params = r.sample(['aa', 'bb', 'xx', 'pp'], r.randint(0, 3))
        if len(params) >= 2 and r.random() < 0.2:
            params[r.randrange(1, len(params))] = params[0]        # a repeated parameter name: the later position is the binding
        last = (bool(params) and r.random() < 0.35) or (not params and r.random() < 0.3)       # `function f(...):` takes any arguments and binds none
        body = []
        local_names = list(params)
        for _ in range(r.randint(1, 4)):
            k = r.random()
            if k < 0.45:
                target = r.choice(NAMES[:7])         # may collide with a global, a parameter or a function name
                if target in ('xx', 'yy', 'tot', 'fn0', 'fn1'):
                    self.collision = True
                body.append(('assign', target, self.expr(local_names + ['xx', 'tot'], 2)))
                if target not in local_names:
                    local_names.append(target)
            elif k < 0.7:
                body.append(log_stmt(('bin', '+', sq(name + ':' + self.tag() + ':'), call('stringNew', call('arrayNew', *[('var', n) for n in (local_names + ['tot'])[:4]])))))
            elif k < 0.8:
                gname = r.choice(['tot', 'gset', 'xx'])
                body.append(('expr', call('systemGlobalSet', sq(gname), self.expr(local_names, 1))))
            elif k < 0.88:
                body.append(log_stmt(call('systemGlobalGet', sq(r.choice(['xx', 'tot', 'nope', 'yy'])), sq('dflt'))))
            elif self.funcs:
                body.append(('assign', r.choice(['yy', 'rr']), self.call_any(local_names, 1)))
        if last and params and r.random() < 0.6:
            # the "..." array is mutated in place and sometimes returned: every call must get a fresh one
            body.append(('expr', call('arrayPush', ('var', params[-1]), self.expr([n for n in local_names if n != params[-1]], 1))))       # (never the array itself: no cycles)
            body.append(log_stmt(call('stringNew', ('var', params[-1]))))
            if r.random() < 0.5:
                body.append(('return', ('var', params[-1])))
        body.append(('return', self.expr(local_names + ['tot'], 2) if r.random() < 0.85 else None))
        self.funcs.append((name, params, last))
        return ('func', name, params, last, body)

    def rebinding_loop(self):
        """A definition that is executed several times (loop body) while its name is re-bound in between - by an assignment, by
        systemGlobalSet or by a second definition: every executed definition binds the name again."""
        r = self.r
        name = r.choice([f[0] for f in self.funcs] + ['fnR', 'fnR', r.choice(SHADOWABLE[:4])])
        if name in ('xx', 'yy', 'tot', 'fn0', 'fn1'):
            self.collision = True

        def definition(tag_text, params):
            parts = [sq(tag_text + ':' + name + ':')] + [('var', p) for p in params] + [('var', 'kk')]
            return ('func', name, params, False, [('return', call('stringNew', call('arrayNew', *parts)))])

        def use():
            return log_stmt(call('stringNew', call('arrayNew', call(name, num(1), num(2), num(3)), ('bin', '!=', ('var', name), ('var', 'null')))))
        how = r.choice(['assign', 'globalset', 'redefine', 'redefine-in-else', 'none'])
        body = [definition('def', r.choice([['aa'], ['aa', 'bb'], []])), use()]
        if how == 'assign':
            body.append(('assign', name, r.choice([num(5), sq('text'), ('var', 'null')])))
        elif how == 'globalset':
            body.append(('expr', call('systemGlobalSet', sq(name), r.choice([num(5), ('var', 'null')]))))
        elif how == 'redefine':
            body.append(definition('alt', r.choice([['pp'], ['aa', 'aa'], []])))
        elif how == 'redefine-in-else':
            body = [('if', [(('bin', '==', ('bin', '%', ('var', 'kk'), num(2)), num(1)), [definition('odd', ['aa'])])], [definition('even', ['bb', 'aa'])]), use()]
        if how != 'none':
            body.append(use())
        self.funcs.append((name, ['aa'], False))
        return ('for', 'kk', None, call('arrayNew', *[num(x) for x in range(1, r.randint(2, 4) + 1)]), body)

    def program(self, size, script_lib_name=None):
        r = self.r
        prog = []
        gnames = ['xx', 'yy', 'tot']
        prog.append(('assign', 'tot', num(r.randint(0, 5))))
        nfun = r.randint(1, 4)
        for i in range(nfun):
            prog.append(self.function(i, script_lib_name if (script_lib_name and i == nfun - 1) else None))
            if r.random() < 0.5:
                prog.append(('assign', r.choice(gnames), self.expr(gnames, 2)))
        for _ in range(r.randint(2, 3 + size)):
            k = r.random()
            f = r.choice(self.funcs)
            if k < 0.35:
                prog.append(log_stmt(call('stringNew', call('arrayNew', self.call_any(gnames, 1), ('var', 'xx'), ('var', 'yy'), ('var', 'tot')))))
            elif k < 0.5:
                prog.append(('assign', 'fv', ('var', f[0])))
                prog.append(log_stmt(call('stringNew', call('fv', *[self.expr(gnames, 1) for _ in range(r.randint(0, 4))]))))
            elif k < 0.65:
                pv = 'pv%d' % len(self.partials)
                self.partials.append(pv)
                prog.append(('assign', pv, call('systemPartial', ('var', f[0]), *[self.expr(gnames, 1) for _ in range(r.randint(1, 2))])))
                for _ in range(r.randint(1, 3)):      # the same partial value is invoked several times
                    prog.append(log_stmt(call('stringNew', call(pv, *[self.expr(gnames, 1) for _ in range(r.randint(0, 3))]))))
            elif k < 0.75:
                arr = call('arrayNew', *[num(x) for x in r.sample([1, 2, 3, 5, 7, 9], r.randint(2, 5))])
                prog.append(log_stmt(call('stringNew', call('arraySort', arr, ('var', f[0])))))
            elif k < 0.85:
                arr = call('arrayNew', *[num(x) for x in r.sample([0, 1, 2, 3], r.randint(1, 4))])
                prog.append(log_stmt(call('stringNew', call('arrayIndexOf', arr, ('var', f[0])))))
            else:
                prog.append(('assign', r.choice(gnames), self.expr(gnames, 2)))
        if r.random() < 0.35:
            prog.insert(r.randint(1 + nfun, len(prog)), self.rebinding_loop())
        if r.random() < 0.15:
            # a comparison function whose only parameter is "...": each comparison gets the two values as an array of its own, which the function keeps
            at = r.randint(1 + nfun, len(prog))
            prog[at:at] = [('assign', 'seen', call('arrayNew')),
                           ('func', 'cmpRest', ['pair'], True, [('expr', call('arrayPush', ('var', 'seen'), ('var', 'pair'))),
                                                               ('return', ('bin', '-', call('arrayGet', ('var', 'pair'), num(0)), call('arrayGet', ('var', 'pair'), num(1))))]),
                           log_stmt(call('stringNew', call('arraySort', call('arrayNew', *[num(x) for x in r.sample([1, 2, 3, 4, 5, 7], r.randint(2, 5))]), ('var', 'cmpRest')))),
                           log_stmt(call('stringNew', ('var', 'seen')))]
        if r.random() < 0.15:
            # partial applications of library functions that take "..." themselves, called without further arguments more than once
            at = r.randint(1 + nfun, len(prog))
            kind = r.choice(['push', 'curry'])
            if kind == 'push':
                prog[at:at] = [('assign', 'ticks', call('arrayNew')), ('assign', 'tick', call('systemPartial', ('var', 'arrayPush'), ('var', 'ticks'), sq('tick')))] + \
                    [('expr', call('tick', *([num(9)] if r.random() < 0.2 else []))) for _ in range(r.randint(2, 4))] + [log_stmt(call('stringNew', ('var', 'ticks')))]
            else:
                f = r.choice(self.funcs)
                prog[at:at] = [('assign', 'curried', call('systemPartial', ('var', 'systemPartial'), ('var', f[0]), num(1)))] + \
                    [log_stmt(call('stringNew', call('arrayNew', call(call_name, num(2))))) for call_name in ['curried'] * 0] + \
                    [('assign', 'bound%d' % i, call('curried')) for i in range(r.randint(2, 3))] + \
                    [log_stmt(call('stringNew', call('arrayNew', call('bound0', num(2)), call('bound1', num(3)))))]
        if r.random() < 0.15:
            # a partial application of a partial application: the arguments are bound in positional order, inner ones first
            f = r.choice(self.funcs)
            at = r.randint(1 + nfun, len(prog))
            prog[at:at] = [('assign', 'inner', call('systemPartial', ('var', f[0]), sq('i1'), sq('i2'))),
                           ('assign', 'outer', call('systemPartial', ('var', 'inner'), sq('o1'))),
                           ('assign', 'outer2', call('systemPartial', ('var', 'outer'))) if r.random() < 0.3 else ('assign', 'outer2', ('var', 'outer')),
                           log_stmt(call('stringNew', call('arrayNew', call('outer', sq('x')), call('outer2', sq('x'), sq('y')), call('inner', num(7)))))]
        if r.random() < 0.12:
            # a comparison function that sorts itself (with another comparison function) while the outer sort is under way
            rows = [call('arrayNew', *[num(x) for x in r.sample(range(10), 2)]) for _ in range(r.randint(3, 5))]
            at = r.randint(1 + nfun, len(prog))
            prog[at:at] = [('func', 'descCmp', ['aa', 'bb'], False, [('return', ('bin', '-', ('var', 'bb'), ('var', 'aa')))]),
                           ('func', 'byLargest', ['ra', 'rb'], False, [
                               ('assign', 'sa', call('arraySort', call('arrayCopy', ('var', 'ra')), ('var', 'descCmp'))),
                               ('assign', 'sb', call('arraySort', call('arrayCopy', ('var', 'rb')), ('var', 'descCmp'))),
                               ('return', ('bin', '-', call('arrayGet', ('var', 'sa'), num(0)), call('arrayGet', ('var', 'sb'), num(0))))]),
                           log_stmt(call('stringNew', call('arraySort', call('arrayNew', *rows), ('var', 'byLargest'))))]
        if len(self.funcs) >= 2 and r.random() < 0.3:
            # an argument whose evaluation re-binds the very name being called: the call uses the binding in force when the call happens
            f0, f1 = r.sample([f[0] for f in self.funcs], 2) if len({f[0] for f in self.funcs}) >= 2 else (self.funcs[0][0], self.funcs[0][0])
            at = r.randint(1 + nfun, len(prog))
            prog[at:at] = [('func', 'swp', [], False, [('expr', call('systemGlobalSet', sq(f0), ('var', f1))), log_stmt(sq('swapped')), ('return', num(1))]),
                           log_stmt(call('stringNew', call('arrayNew', call(f0, call('swp'), num(2)), call(f0, num(3))))) if r.random() < 0.6 else
                           ('assign', r.choice(gnames), call(f0, num(0), call('swp')))]
            if f0 in ('xx', 'yy', 'tot', 'fn0', 'fn1'):
                self.collision = True
        if script_lib_name:
            prog.append(log_stmt(call('stringNew', call(script_lib_name, num(4), num(9)))))
        prog.append(log_stmt(call('stringNew', call('arrayNew', ('var', 'xx'), ('var', 'yy'), ('var', 'tot'), ('var', 'aa'), ('var', 'bb'), ('var', 'rr'),
                                                    call('systemGlobalGet', sq('gset'))))))
        prog.append(('return', self.expr(gnames, 2)))
        return prog


def host_config(rnd):
    g = {}
    if rnd.random() < 0.6:
        g['xx'] = rnd.choice([100.0, 'hostx', [1.0, 2.0], None])
    if rnd.random() < 0.3:
        g['yy'] = rnd.choice([7.0, 'hosty'])
    shadows = {}
    for name in rnd.sample(SHADOWABLE, rnd.choice([0, 1, 1, 2, 3])):
        shadows[name] = rnd.choice([shadow_upper, shadow_len, 5.0, 'not a function', None])
        g[name] = shadows[name]
    if rnd.random() < 0.2:
        g['unrelated'] = {'k': [1.0]}
    return g, shadows


def assigned_at_top(prog):
    out = set()
    for s in prog:
        if s[0] == 'assign':
            out.add(s[1])
        elif s[0] == 'func':
            out.add(s[1])
        elif s[0] == 'for':
            out.add(s[1])
            out |= assigned_at_top(s[4])
        elif s[0] == 'if':
            for _, b in s[1]:
                out |= assigned_at_top(b)
            out |= assigned_at_top(s[2] or [])
    return out


def global_set_names(prog):
    out = set()

    def walk(e):
        if e[0] == 'call':
            if e[1] == 'systemGlobalSet' and e[2] and e[2][0][0] == 'str':
                out.add(e[2][0][2])
            for a in e[2]:
                walk(a)
        elif e[0] == 'bin':
            walk(e[2])
            walk(e[3])
        elif e[0] in ('unary', 'group'):
            walk(e[-1])
    def stmts(lst):
        for t in lst:
            if t[0] == 'assign':
                walk(t[2])
            elif t[0] == 'expr':
                walk(t[1])
            elif t[0] == 'return' and t[1] is not None:
                walk(t[1])
            elif t[0] in ('func', 'for'):
                if t[0] == 'for':
                    walk(t[3])
                stmts(t[4])
            elif t[0] == 'if':
                for c, b in t[1]:
                    walk(c)
                    stmts(b)
                stmts(t[2] or [])
    stmts(prog)
    return out


def compare(prog, src, host):
    d = {'kind': 'program', 'source': src, 'host': enc(host)}
    # reference first (a case whose values explode is discarded before the implementation runs it)
    rlog = []
    rg = {k: copy.deepcopy(v) if isinstance(v, (list, dict)) else v for k, v in host.items()}
    ref = interp.Ref(rg, rlog, fuel=50000)
    try:
        expected = ('ok', ref.run_program(prog))
    except interp.Indeterminate as e:
        return None, str(e)
    except RecursionError:
        return None, 'cyclic structure (an array pushed into itself through an alias)'
    except interp.RefRuntimeError as e:
        expected = ('runtime-error', e.kind)
    # implementation
    ilog = []
    ig = {k: copy.deepcopy(v) if isinstance(v, (list, dict)) else v for k, v in host.items()}     # the caller's globals object (own copies of containers)
    ig_before = dict(ig)
    opts = {'globals': ig, 'logFn': lambda m: ilog.append(('log', m)), 'maxStatements': 20000}
    model = impl.parse_valid(src, d)
    try:
        got = ('ok', impl.bs.execute_script(model, opts))
    except impl.bs.RuntimeError as e:
        got = ('runtime-error', 'undefined-function' if 'Undefined function' in str(e) else str(e))
    except Exception as e:  # pylint: disable=broad-except
        got = ('host-exception', '%s: %s' % (type(e).__name__, e))
    if got[0] != expected[0] or (got[0] != 'ok' and got[1] != expected[1]):
        raise Violation('program ends with %r, documented scoping/calling rules give %r' % (got, expected), d, 'outcome')
    if ilog != rlog:
        n = next((i for i, (a, b) in enumerate(zip(ilog, rlog)) if a != b), min(len(ilog), len(rlog)))
        raise Violation('log entry %d is %r, documented scoping/calling rules give %r' % (n, ilog[n] if n < len(ilog) else None, rlog[n] if n < len(rlog) else None),
                        d, 'log')
    if got[0] == 'ok' and not _same(got[1], expected[1]):
        raise Violation('result %r, expected %r' % (got[1], expected[1]), d, 'result')
    # ---- direct invariants on the caller's globals object ------------------------------------------------------------------------------
    if opts['globals'] is not ig:
        raise Violation('options["globals"] was replaced by another object', d, 'globals-object-replaced')
    top = assigned_at_top(prog)
    gset = global_set_names(prog)
    for k, v in ig_before.items():
        if k not in top and k not in gset and ig.get(k, '<missing>') is not v:
            raise Violation('caller-supplied global %r was changed from %r to %r although the script never assigns it' % (k, v, ig.get(k, '<missing>')), d,
                            'caller-global-overwritten')
    script_funcs = {s[1] for s in prog if s[0] == 'func'} - {t[1] for s in prog if s[0] == 'for' for t in s[4] if t[0] == 'func'}
    for name in LIBRARY_NAMES:
        if name in ig_before or name in top or name in gset:
            continue
        if name not in ig or ig[name] is not impl.bs.SCRIPT_FUNCTIONS.get(name):
            raise Violation('library function %s was not added to the globals' % name, d, 'library-not-added')
    if got[0] == 'ok':
        for name in script_funcs:
            if name in LIBRARY_NAMES and ig.get(name) is impl.bs.SCRIPT_FUNCTIONS.get(name):
                raise Violation('script-defined function %s did not replace the library function' % name, d, 'script-function-not-bound')
        user_i = {k: v for k, v in ig.items() if not (k in impl.bs.SCRIPT_FUNCTIONS and v is impl.bs.SCRIPT_FUNCTIONS[k]) and
                  not k.startswith('__bareScript')}        # (the for lowering keeps its loop state in reserved names)
        user_r = dict(rg)
        if sorted(user_i) != sorted(user_r):
            leaked = sorted(set(user_i) - set(user_r))
            raise Violation('final globals differ in names %r (a function-local assignment leaked into globals, or a global was lost)' % (
                sorted(set(user_i) ^ set(user_r)),), d, 'globals-names' + (':leak' if leaked else ''))
        for k in user_i:
            if not _same(user_i[k], user_r[k]):
                raise Violation('final global %s = %r, expected %r' % (k, user_i[k], user_r[k]), d, 'globals-value')
    # ---- the same options object used for a second run with another globals object (a host that keeps one configuration) -----------------
    ig2 = {k: copy.deepcopy(v) if isinstance(v, (list, dict)) else v for k, v in host.items()}
    opts['globals'] = ig2
    n0 = len(ilog)
    try:
        got2 = ('ok', impl.bs.execute_script(model, opts))
    except impl.bs.RuntimeError as e:
        got2 = ('runtime-error', 'undefined-function' if 'Undefined function' in str(e) else str(e))
    except Exception as e:  # pylint: disable=broad-except
        got2 = ('host-exception', '%s: %s' % (type(e).__name__, e))
    if got2[0] != got[0] or (got[0] != 'ok' and got2[1] != got[1]) or (got[0] == 'ok' and not _same(got2[1], expected[1])) or ilog[n0:] != rlog:
        raise Violation('a second run with the same options object and a fresh globals object ends with %r after %d log entries, the first run with %r after %d' % (
            got2, len(ilog) - n0, got, n0), d, 'second-run-same-options')
    for name in LIBRARY_NAMES:
        if name not in ig_before and name not in top and name not in gset and ig2.get(name) is not impl.bs.SCRIPT_FUNCTIONS.get(name):
            raise Violation('second run with the same options object: library function %s was not added to the new globals object' % name, d,
                            'library-not-added-second-run')
    return expected, ref.events


def _same(a, b):
    if isinstance(b, (RefFunction, interp.LibraryRef, interp.RefPartial)):
        return callable(a)
    return values_equal(a, b, same_function=lambda x, y: x is y or isinstance(y, (RefFunction, interp.LibraryRef, interp.RefPartial)))


# ---- expression mode: locals / globals beat built-in aliases -----------------------------------------------------------------------------

def check_expression_mode(rnd):
    aliases = sorted(interp.EXPRESSION_ALIASES)
    name = rnd.choice(['abs', 'max', 'len', 'text', 'upper', 'min', 'floor', 'round', 'lower', 'trim'])
    arg = rnd.choice([-3.5, 'Abc ', 2.0])
    where = rnd.choice(['locals', 'globals', 'both', 'none', 'locals-null', 'globals-null'])
    text = '%s(vv)' % name
    expr = impl.bs.parse_expression(text)
    globals_ = {'vv': arg}
    locals_ = {}
    if where in ('globals', 'both'):
        globals_[name] = shadow_len
    if where in ('locals', 'both'):
        locals_[name] = shadow_upper
    if where == 'locals-null':
        locals_[name] = None        # bound to null: the binding still wins, so the call is an undefined-function error
    if where == 'globals-null':
        globals_[name] = None
    d = {'kind': 'expression-mode', 'text': text, 'where': where, 'arg': enc(arg)}
    rg = dict(globals_)
    ref = interp.Ref(rg, [], builtins=True, library=False)
    try:
        expected = ref.ev(('call', name, [('var', 'vv')]), dict(locals_))
    except interp.Indeterminate:
        return None
    except interp.RefRuntimeError:
        expected = interp.RefRuntimeError
    try:
        got = impl.bs.evaluate_expression(expr, {'globals': globals_}, locals_, True)
    except impl.bs.RuntimeError as e:
        got = interp.RefRuntimeError if 'Undefined function' in str(e) else ('runtime-error', str(e))
    except Exception as e:  # pylint: disable=broad-except
        raise Violation('%s with %s bound in %s raised %s' % (text, name, where, type(e).__name__), d, 'expression-mode-raises') from e
    if expected is interp.RefRuntimeError or got is interp.RefRuntimeError:
        if got is not expected:
            raise Violation('%s with %s bound to null in %s: %r, expected an undefined-function error (a bound name wins over the built-in)' % (
                text, name, where, got), d, 'expression-mode-null-binding')
        return where
    if not _same(got, expected):
        raise Violation('%s with %s bound in %s = %r, expected %r (locals, then globals, then built-ins)' % (text, name, where, got, expected), d,
                        'expression-mode-lookup')
    # without builtins the alias must not be found
    try:
        impl.bs.evaluate_expression(expr, {'globals': {'vv': arg}}, None, False)
        raise Violation('%s evaluated although built-ins are disabled and nothing binds %s' % (text, name), d, 'builtins-flag')
    except impl.bs.RuntimeError:
        pass
    return where


def gen_case(rnd, size):
    host, shadows = host_config(rnd)
    g = Gen(rnd)
    lib_name = rnd.choice(['mathMin', 'systemType', 'jsonStringify', 'objectNew']) if rnd.random() < 0.25 else None      # never called by generated bodies
    prog = g.program(size, lib_name)
    src = '\n'.join(gp.print_program(prog)) + '\n'
    return prog, src, host, g, bool(shadows) or lib_name is not None


def plan(tier):
    k = 12 if tier == 'quick' else 16
    specs = [{'kind': 'programs', 'n': 2000 if tier == 'quick' else 20000, 'k': i} for i in range(k)]
    specs += [{'kind': 'expression-mode', 'n': 3000 if tier == 'quick' else 50000}]
    return specs


def run_shard(ctx, spec):
    if spec['kind'] == 'expression-mode':
        rnd = random.Random(ctx.seed * 977)
        for i in range(spec['n']):
            try:
                where = check_expression_mode(rnd)
            except Violation as v:
                ctx.violation(v)
                continue
            if where:
                ctx.case(digest('e%d' % i) if i > 200 else digest(where + str(i)), where != 'none', ['expression-mode:' + where])
        return

    def prop(seed, size):
        rnd = random.Random(seed)
        prog, src, host, g, shadowed = gen_case(rnd, size)
        try:
            res = compare(prog, src, host)
        except Violation as v:
            v.detail.update(seed=seed, size=size)
            raise
        except RecursionError:
            res = (None, 'cyclic structure (an array pushed into itself through an alias)')
        if res[0] is None:
            ctx.discard('indeterminate:' + res[1][:30])
            return
        expected, events = res
        ctx.case(digest([src, enc(host)]), events['call-arity-mismatch'] > 0 and g.collision,
                 ['program', 'outcome:' + expected[0], 'arity-mismatch' if events['call-arity-mismatch'] else 'no-arity-mismatch',
                  'collision' if g.collision else 'no-collision', 'library-shadowed' if shadowed else 'plain-host', 'partials' if g.partials else 'no-partials'],
                 {'source': src[:700], 'host': host})
    run_hypothesis(ctx, prop, [st.integers(0, 2 ** 32 - 1), st.integers(1, 4)], spec['n'], salt=spec['k'], minimise=minimise)


def minimise(v):
    if 'seed' not in v.detail or v.detail.get('kind') != 'program':
        return None
    rnd = random.Random(v.detail['seed'])
    prog, src, host, g, _ = gen_case(rnd, v.detail['size'])

    def failure(p):
        try:
            compare(p, '\n'.join(gp.print_program(p)) + '\n', host)
        except Violation as e:
            return e
        return None
    best = failure(prog)
    if best is None:
        return None
    improved, budget = True, 800
    while improved and budget > 0:
        improved = False
        for cand in _variants(prog):
            budget -= 1
            if budget <= 0:
                break
            e = failure(cand) if cand and _valid(cand) else None
            if e is not None and e.bucket == best.bucket:
                prog, best, improved = cand, e, True
                break
    return best


def replay(detail):
    if detail.get('kind') == 'expression-mode':
        return      # regenerated from the seed by the run itself; nothing stored to replay
    from pbt.gen.reader import read_program
    prog = read_program(detail['source'])
    compare(prog, detail['source'], dec(detail['host'], HOSTS))
