"""C15 - array, object and string functions obey their sequence/map/string contracts (stateful, model based)."""
import copy
import random
import sys
import re
import urllib.parse

import hypothesis
from hypothesis import HealthCheck, Phase, settings, strategies as st
from hypothesis.stateful import RuleBasedStateMachine, initialize, invariant, rule, run_state_machine_as_test

from pbt.common import impl
from pbt.common.core import Violation, digest, enc, hyp_seed, run_hypothesis
from pbt.gen import exprs as ge
from pbt.refsem import library as rl
from pbt.refsem.values import is_number, ref_compare, values_equal

ID = 'C15'
LEVEL = 'exploration'
RULE = ('Hypothesis RuleBasedStateMachine: the state is a set of script globals holding arrays, objects and strings with aliases (a1 = a0, '
        'containers nested in containers by reference); each step issues ONE script line `r = fn(args...)` for one of the 42 array*/object*/'
        'string* functions (indices/counts drawn around the current length, -2..len+2, written as float literals; ~25%% of the arguments '
        'wrong-typed, missing or surplus), or saves/aliases/re-creates a container; the same operation is applied to an independent '
        'list/dict/str model heap. After every step the result, every pool variable and the aliasing partition (which names and nested elements '
        'are the same object) must agree; a call the model rejects must return its documented failure value (null, -1, 0, false, or the '
        'supplied default for objectGet) and change nothing. Sequences of up to 30 steps. Stateless: regexEscape(s) compiled with ^...$ '
        'matches s and none of its single-edit neighbours; urlEncode/urlEncodeComponent are reversed by percent-decoding and emit only '
        'unreserved/allowed characters. Non-trivial: a sequence with >= 1 mutation through an alias and >= 1 failing call (counted per '
        'sequence); classes report per-function ok/failed counts.')
RULE += " Also: script match functions for arrayIndexOf / arrayLastIndexOf returning {}, [], '', 0, null, the element itself; indices a hair off an integer (n +- 1e-10); URLs with characters that are not in NFC form, %-sequences. Round 5: a match function that changes the array being searched; library functions as match functions over arrays of arrays; keys that are present and hold null."
RULE += ' Round 7: failing calls must return the documented failure value exactly (null is no longer accepted where -1 / 0 / false is documented); odd wrong-typed arguments - objects and arrays of 120 members, a 300-character string, +-infinity / NaN, containers that contain themselves, a datetime at the end of the year range - in the machine and exhaustively for every typed parameter of every function (debug on and off, arguments unchanged, failure logged).'
RULE += " Round 8: non-ASCII white space at the ends of strings; an array nested 3000 levels deep as a wrong-typed argument (under the host's default recursion limit)."
ASSUMPTIONS = ['arrayDelete\'s return value, searches for the empty string, stringReplace with an empty pattern and comparison callbacks are not asserted',
               'strings avoid code points that str.splitlines treats as line ends (script text is line oriented)']

ARRAYS = ['a0', 'a1', 'a2', 'a3']
OBJECTS = ['o0', 'o1', 'o2']
STRINGS = ['s0', 's1', 's2']
SAVED = ['x0', 'x1']
STRING_POOL = ['', 'a', 'ab', 'abcab', 'A b ', ' x ', 'é\U0001f600z', 'a,b,,c', 'aXbXc', 'hello world', 'Straße',
               # white space that is not ASCII (no-break space, em space, ideographic space, line separator) at the ends and inside
               'abc\u00a0', '\u2003abc', '\u3000a b\u2028', '\u00a0', 'x\u00a0y', '\tab\t ']
SEARCH_POOL = ['a', 'b', 'ab', ',', ' ', 'X', 'c', 'zz', 'é']
KEYS = ['a', 'b', 'c', 'k', '']
FUNCTIONS = sorted(n for n in rl.MODELS if n.startswith(('array', 'object', 'string')))


def lit(v):
    if v is None:
        return 'null'
    if v is True:
        return 'true'
    if v is False:
        return 'false'
    if is_number(v):
        return str(int(v)) if v >= 0 and v == int(v) else ('(0 - %s)' % (repr(abs(v))[:-2] if repr(abs(v)).endswith('.0') else repr(abs(v))) if v < 0 else repr(v))
    return ge.quote_single(v)


# match functions: what they return is tested for truth as the language does (null, false, 0, '', [] are false; everything else - the
# empty object too - is true). name -> (script body, the same function over model values)
MATCHERS = {
    'mEmptyObj': ("return objectNew()", lambda v: {}),
    'mEmptyArr': ("return arrayNew()", lambda v: []),
    'mIsTwo': ("return vv == 2", lambda v: ref_compare(v, 2.0) == 0),
    'mSelf': ("return vv", lambda v: v),
    'mText': ("return if(vv == 2, 'x', '')", lambda v: 'x' if ref_compare(v, 2.0) == 0 else ''),
    'mZero': ("return 0", lambda v: 0.0),
    'mNothing': ("return", lambda v: None),
    'mObjIfArr': ("return if(systemType(vv) == 'array', objectNew(), null)", lambda v: {} if isinstance(v, list) else None),
    # a match function with an effect on the very array that may be searched: the search sees the array as it is when each element is examined
    'mPoke': ("if systemType(a0) == 'array' && arrayLength(a0) > 0:\n        arraySet(a0, 0, 'poked')\n    endif\n    return vv == 'poked'", lambda v: _poke(v)),
}
_HEAP = [None]
LIBRARY_MATCHERS = ['arrayPush', 'arrayLength', 'objectKeys', 'stringLength', 'arrayPop', 'arrayCopy', 'stringNew']


def _poke(v):
    a0 = _HEAP[0].model.get('a0') if _HEAP[0] is not None else None
    if isinstance(a0, list) and a0:
        a0[0] = 'poked'
    return ref_compare(v, 'poked') == 0
COMPARATORS = {'cmpDiff': ('return aa - bb', lambda a, b: a - b), 'cmpDesc': ('return bb - aa', lambda a, b: b - a),
               'cmpHalf': ('return (aa - bb) / 2', lambda a, b: (a - b) / 2)}
MATCHER_PRELUDE = '\n'.join('function %s(aa, bb):\n    %s\nendfunction' % (n, body) for n, (body, _) in sorted(COMPARATORS.items())) + '\n' + '\n'.join('function %s(vv):\n    %s\nendfunction' % (n, body) for n, (body, _) in sorted(MATCHERS.items()))


class _Matcher:
    """Model-side stand-in for a script match function."""

    def __init__(self, name):
        self.name = name

    def __call__(self, args, options=None):
        if self.name in COMPARATORS:
            return COMPARATORS[self.name][1](args[0], args[1])
        if self.name in LIBRARY_MATCHERS:
            # a library function as the match function: called with the element as its only argument (a fresh argument list per element); what
            # the search makes of a match function that fails is not documented
            try:
                return rl.MODELS[self.name]([args[0] if args else None])
            except rl.Fail as e:
                raise rl.UnspecifiedResult('library match function failed') from e
        return MATCHERS[self.name][1](args[0] if args else None)


class Heap:
    """Parallel state: real script globals and the model's values, both keyed by variable name."""

    def __init__(self):
        self.real = {}
        self.model = {}
        self.options = None
        self.run_line(MATCHER_PRELUDE)      # match functions for arrayIndexOf / arrayLastIndexOf (script functions in the real globals)

    def run_line(self, line):
        log = []
        model = impl.bs.parse_script(line)
        out = impl.run_model(model, self.real, log, 2000, debug=True)
        return out, log


def alias_partition(env, names):
    """Groups of access paths that denote the same container object (names and one/two levels of nesting)."""
    by_id = {}

    def visit(v, path, depth):
        if isinstance(v, (list, dict)):
            by_id.setdefault(id(v), []).append(path)
            if depth < 2:
                items = enumerate(v) if isinstance(v, list) else v.items()
                for k, e in items:
                    visit(e, path + (k,), depth + 1)
    for n in names:
        if n in env:
            visit(env[n], (n,), 0)
    return sorted(sorted(map(repr, g)) for g in by_id.values() if len(g) > 1)


def reaches(src, target, depth=0):
    if src is target:
        return True
    if depth > 6:
        return True
    if isinstance(src, list):
        return any(reaches(x, target, depth + 1) for x in src)
    if isinstance(src, dict):
        return any(reaches(x, target, depth + 1) for x in src.values())
    return False


def equal(a, b):
    return values_equal(a, b, same_function=lambda x, y: True)


def _cyclic(v, key):
    if isinstance(v, list):
        v.append(v)
    else:
        v[key] = v
    return v


ODD_VALUES = {'bigO': {'k%d' % i: float(i) for i in range(120)}, 'bigA': [float(i) for i in range(120)], 'bigS': 'abc' * 100, 'inf': float('inf'),
              'nanv': float('nan'), 'cyA': _cyclic([1.0], None), 'cyO': _cyclic({}, 'self')}
# per expected argument type: odd values of another type (the call must fail with its documented failure value, whatever the value looks like)
ODD_WRONG = {'array': ['bigO', 'bigS', 'inf', 'nanv', 'cyO'], 'object': ['bigA', 'bigS', 'inf', 'nanv', 'cyA'], 'string': ['bigO', 'bigA', 'inf', 'nanv', 'cyA', 'cyO'],
             'key': ['bigO', 'bigA', 'inf', 'nanv', 'cyA', 'cyO'], 'index': ['bigO', 'bigA', 'bigS', 'cyA', 'cyO']}


class Machine(RuleBasedStateMachine):
    ctx = None          # set by the runner

    def __init__(self):
        super().__init__()
        self.h = Heap()
        self.steps = []
        self.stats = {'alias-mutation': 0, 'failed': 0, 'ok': 0}
        self.fn_stats = {}

    # ---- helpers ---------------------------------------------------------------------------------------------------------
    def names(self):
        return [n for n in ARRAYS + OBJECTS + STRINGS + SAVED + ['r'] if n in self.h.model]

    def fail(self, what, bucket):
        detail = {'kind': 'sequence', 'steps': list(self.steps)}
        raise Violation(what, detail, bucket)

    def exec_both(self, line, model_fn):
        """Run `line` on the real globals; apply model_fn() -> (target name, outcome) on the model."""
        self.steps.append(line)
        out, log = self.h.run_line(line)
        if out.kind != 'ok':
            self.fail('step %r ended with %r' % (line, out), 'step-raises')
        return out, log

    def check_state(self, line):
        names = self.names()
        for n in names:
            if n not in self.h.real:
                self.fail('after %r: variable %s is missing' % (line, n), 'state-missing')
            if not equal(self.h.real[n], self.h.model[n]):
                self.fail('after %r: %s is %r, the list/dict/str model has %r' % (line, n, _short(self.h.real[n]), _short(self.h.model[n])),
                          'state:' + line.split('(')[0].split('= ')[-1].strip())
        pr, pm = alias_partition(self.h.real, names), alias_partition(self.h.model, names)
        if pr != pm:
            self.fail('after %r: aliasing differs: real %r, model %r' % (line, pr, pm), 'aliasing:' + line.split('(')[0].split('= ')[-1].strip())

    # ---- rules -----------------------------------------------------------------------------------------------------------
    @initialize(seed=st.integers(0, 2 ** 32 - 1))
    def setup(self, seed):
        rnd = random.Random(seed)
        lines = ['a0 = arrayNew(1, 2, 3)', 'a1 = a0', "a2 = arrayNew('b', 'a', null, 2)", 'a3 = arrayNew(a0, arrayNew(5))',
                 "o0 = objectNew('a', 1, 'b', a0)", 'o1 = o0', "o2 = objectNew()", "s0 = 'abcab'", "s1 = ''", "s2 = 'a,b,,c'", 'r = null']
        # values that only ever serve as wrong-typed arguments: big containers and a long string, non-finite numbers, containers that contain themselves
        lines += ['bigO = objectNew()', 'bigA = arrayNew()', 'ii = 0', 'while ii < 120:', "    objectSet(bigO, 'k' + ii, ii)", '    arrayPush(bigA, ii)', '    ii = ii + 1',
                  'endwhile', "bigS = stringRepeat('abc', 100)", 'inf = 1e+308 * 10', 'nanv = inf - inf', 'cyA = arrayNew(1)', 'arrayPush(cyA, cyA)',
                  'cyO = objectNew()', "objectSet(cyO, 'self', cyO)"]
        self.h.model = {}
        m = self.h.model
        m['a0'] = [1.0, 2.0, 3.0]
        m['a1'] = m['a0']
        m['a2'] = ['b', 'a', None, 2.0]
        m['a3'] = [m['a0'], [5.0]]
        m['o0'] = {'a': 1.0, 'b': m['a0']}
        m['o1'] = m['o0']
        m['o2'] = {}
        m['s0'], m['s1'], m['s2'], m['r'] = 'abcab', '', 'a,b,,c', None
        out, _ = self.h.run_line('\n'.join(lines))
        self.steps.append('\n'.join(lines))
        if out.kind != 'ok':
            self.fail('setup failed: %r' % (out,), 'setup')
        self.check_state('setup')

    def pick_arg(self, rnd, spec_type, first_container):
        """Returns (source text, model value)."""
        m = self.h.model
        k = rnd.random()
        if k < 0.04 and spec_type in ODD_WRONG:
            choice = rnd.choice(ODD_WRONG[spec_type])
            return choice, ODD_VALUES[choice]
        if k < 0.12:          # wrong-typed / odd value
            choice = rnd.choice(['null', 'true', "'str'", '7', 'a0', 'o0', 's0', '1.5', '(0 - 1)', 'arrayNew()', 'objectNew()'])
            table = {'null': None, 'true': True, "'str'": 'str', '7': 7.0, 'a0': m.get('a0'), 'o0': m.get('o0'), 's0': m.get('s0'), '1.5': 1.5, '(0 - 1)': -1.0}
            if choice == 'arrayNew()':
                return choice, []
            if choice == 'objectNew()':
                return choice, {}
            return choice, table[choice]
        if spec_type == 'array':
            n = rnd.choice([x for x in ARRAYS + SAVED if isinstance(m.get(x), list)] or ['a0'])
            return n, m[n]
        if spec_type == 'object':
            n = rnd.choice([x for x in OBJECTS + SAVED if isinstance(m.get(x), dict)] or ['o0'])
            return n, m[n]
        if spec_type == 'string':
            if rnd.random() < 0.5:
                n = rnd.choice(STRINGS)
                return n, m[n]
            v = rnd.choice(STRING_POOL)
            return lit(v), v
        if spec_type == 'search':
            v = rnd.choice(SEARCH_POOL)
            return lit(v), v
        if spec_type == 'key':
            present = sorted(first_container) if isinstance(first_container, dict) else []
            nulls = [k for k in present if first_container[k] is None]
            if nulls and rnd.random() < 0.5:
                v = rnd.choice(nulls)          # a key that is present and holds null (not the same as an absent key)
            elif present and rnd.random() < 0.5:
                v = rnd.choice(present)
            else:
                v = rnd.choice(KEYS)
            return lit(v), v
        if spec_type == 'index':
            length = len(first_container) if isinstance(first_container, (list, str)) else 3
            v = float(rnd.choice([rnd.randint(-2, length + 2), rnd.randint(0, max(0, length - 1)), rnd.randint(0, max(0, length - 1)), length, 0]))
            if rnd.random() < 0.05:
                v = v + 0.5
            elif rnd.random() < 0.05:
                v = v + rnd.choice([1e-10, -1e-10, 1e-9, 1e-12])       # a hair off an integer is not an integer
            return lit(v), v
        if spec_type == 'code':
            v = float(rnd.choice([65, 97, 0x1F600, 0x20, 0xe9, 0x10FFFF, 0x110000, -1, 66.5]))
            return lit(v), v
        # any value: scalars, pool containers (aliasing!), fresh containers
        c = rnd.random()
        if c < 0.3:
            v = rnd.choice([0.0, 1.0, 2.0, 3.0, 5.0, -1.0, 2.5])
            return lit(v), v
        if c < 0.45:
            v = rnd.choice(STRING_POOL[:6])
            return lit(v), v
        if c < 0.55:
            return rnd.choice([('null', None), ('null', None), ('true', True), ('false', False)])
        if c < 0.8:
            n = rnd.choice([x for x in ARRAYS + OBJECTS + SAVED if isinstance(m.get(x), (list, dict))] or ['a0'])
            return n, m[n]
        if c < 0.9:
            return 'arrayNew(1, 2)', [1.0, 2.0]
        return "objectNew('z', 1)", {'z': 1.0}

    SIGNATURES = {
        'arrayCopy': ['array'], 'arrayDelete': ['array', 'index'], 'arrayExtend': ['array', 'array'], 'arrayGet': ['array', 'index'],
        'arrayIndexOf': ['array', 'any', '?index'], 'arrayJoin': ['array', 'search'], 'arrayLastIndexOf': ['array', 'any', '?index'], 'arrayLength': ['array'],
        'arrayNew': ['*any'], 'arrayNewSize': ['?index', '?any'], 'arrayPop': ['array'], 'arrayPush': ['array', '*any'], 'arraySet': ['array', 'index', 'any'],
        'arrayShift': ['array'], 'arraySlice': ['array', '?index', '?index'], 'arraySort': ['array'],
        'objectAssign': ['object', 'object'], 'objectCopy': ['object'], 'objectDelete': ['object', 'key'], 'objectGet': ['object', 'key', '?any'],
        'objectHas': ['object', 'key'], 'objectKeys': ['object'], 'objectNew': ['*kv'], 'objectSet': ['object', 'key', 'any'],
        'stringCharCodeAt': ['string', 'index'], 'stringEndsWith': ['string', 'search'], 'stringFromCharCode': ['*code'], 'stringIndexOf': ['string', 'search', '?index'],
        'stringLastIndexOf': ['string', 'search', '?index'], 'stringLength': ['string'], 'stringLower': ['string'], 'stringNew': ['any'], 'stringRepeat': ['string', 'index'],
        'stringReplace': ['string', 'search', 'search'], 'stringSlice': ['string', 'index', '?index'], 'stringSplit': ['string', 'search'], 'stringStartsWith': ['string', 'search'],
        'stringTrim': ['string'], 'stringUpper': ['string'],
    }

    @rule(seed=st.integers(0, 2 ** 32 - 1))
    def call(self, seed):
        rnd = random.Random(seed)
        name = rnd.choice(FUNCTIONS)
        sig = self.SIGNATURES[name]
        texts, values = [], []
        first = None
        for spec in sig:
            if spec.startswith('*'):
                for i in range(rnd.choice([0, 1, 2, 2, 3, 4])):
                    t = spec[1:]
                    if t == 'kv':
                        t = 'key' if i % 2 == 0 else 'any'
                    a = self.pick_arg(rnd, t, first)
                    texts.append(a[0])
                    values.append(a[1])
                continue
            optional = spec.startswith('?')
            if optional and rnd.random() < 0.4:
                break
            a = self.pick_arg(rnd, spec.lstrip('?'), first)
            if optional and rnd.random() < 0.1:
                a = ('null', None)
            texts.append(a[0])
            values.append(a[1])
            if first is None:
                first = a[1]
        m = rnd.random()
        if m < 0.06 and texts:
            k = rnd.randrange(len(texts))
            del texts[k:]
            del values[k:]
        elif m < 0.12:
            a = self.pick_arg(rnd, 'any', first)
            texts.append(a[0])
            values.append(a[1])
        matcher = None
        if name == 'arraySort' and len(texts) == 1 and rnd.random() < 0.5:
            # a comparison function (the difference of two numbers - a fraction when they are less than 1 apart) over an array of numbers
            xs = [rnd.choice([2.5, 2.25, 2.0, 3.0, 2.75, 9.0, 0.5, 0.75, -1.5, 2.0, 100.0, 2.125]) for _ in range(rnd.randint(2, 7))]
            if isinstance(values[0], list) and len(values[0]) >= 2 and all(is_number(x) and not isinstance(x, bool) for x in values[0]) and rnd.random() < 0.5:
                pass
            else:
                texts[0], values[0] = 'arrayNew(%s)' % ', '.join(lit(x) for x in xs), list(xs)
            matcher = rnd.choice(sorted(COMPARATORS))
            texts.append(matcher)
            values.append(_Matcher(matcher))
        if name in ('arrayIndexOf', 'arrayLastIndexOf') and len(texts) >= 2 and rnd.random() < 0.4:
            matcher = rnd.choice(sorted(MATCHERS) + ['mPoke', 'mPoke'] + LIBRARY_MATCHERS[:3] + [rnd.choice(LIBRARY_MATCHERS)])
            texts[1], values[1] = matcher, _Matcher(matcher)
            _HEAP[0] = self.h
            if matcher == 'mPoke' and isinstance(self.h.model.get('a0'), list) and rnd.random() < 0.7:
                texts[0], values[0] = 'a0', self.h.model['a0']           # the array that the match function changes is the one being searched
            if matcher in LIBRARY_MATCHERS and rnd.random() < 0.7:
                # an array of arrays (the first ones empty): array functions as match functions work on the elements
                inner = [[] for _ in range(rnd.randint(0, 2))] + [rnd.choice([[], [], [7.0], [1.0, 2.0]]) for _ in range(rnd.randint(1, 3))]
                texts[0] = 'arrayNew(%s)' % ', '.join('arrayNew(%s)' % ', '.join(lit(x) for x in e) for e in inner)
                values[0] = [list(e) for e in inner]
            if len(values) > 2 and is_number(values[2]) and isinstance(values[0], list) and not 0 <= values[2] < len(values[0]):
                del texts[2:]
                del values[2:]
        # keep repeat counts small
        if name == 'stringRepeat' and len(values) > 1 and is_number(values[1]) and values[1] > 6:
            values[1], texts[1] = 3.0, '3'
        if name == 'arrayNewSize' and values and is_number(values[0]) and values[0] > 8:
            values[0], texts[0] = 2.0, '2'
        # never build a cyclic structure (a container reachable from itself cannot be stringified or compared)
        if name in ('arrayPush', 'arraySet', 'objectSet', 'arrayExtend', 'objectAssign') and values and isinstance(values[0], (list, dict)):
            for i in range(1, len(values)):
                if isinstance(values[i], (list, dict)) and reaches(values[i], values[0]):
                    values[i], texts[i] = 9.0, '9'
        line = 'r = %s(%s)' % (name, ', '.join(texts))
        before = copy.deepcopy({n: self.h.model[n] for n in self.names()})
        aliased_before = alias_partition(self.h.model, self.names())
        out, log = self.exec_both(line, None)
        failed_log = [x for x in log if 'failed with error' in x]
        got = self.h.real.get('r')
        try:
            expected = rl.MODELS[name](list(values)) if name not in rl.NEEDS_CALL else \
                rl.MODELS[name](list(values), (lambda f, a: f(a)) if matcher else None)
            outcome = 'ok'
        except rl.UnspecifiedResult:
            outcome, expected = 'ok', rl.UNSPEC
        except rl.FailDefault as f:
            outcome, expected = 'fail-default', f.value
        except rl.Fail as f:
            outcome, expected = 'fail', f.value
        st_ = self.fn_stats.setdefault(name, {'ok': 0, 'failed': 0})
        if outcome == 'ok':
            if expected is rl.UNSPEC:
                # the documentation does not fix the result: re-synchronise r on both sides
                self.h.run_line('r = null')
                self.steps.append('r = null')
                self.h.model['r'] = None
            else:
                if failed_log:
                    self.fail('%s failed (%s) but the list/dict/str model gives %r' % (line, failed_log[0][:120], _short(expected)), 'unexpected-failure:' + name)
                if not equal(got, expected):
                    self.fail('%s = %r, the list/dict/str model gives %r' % (line, _short(got), _short(expected)), 'result:' + name)
                self.h.model['r'] = expected
            st_['ok'] += 1
            self.stats['ok'] += 1
            if aliased_before and any(not equal(before[n], self.h.model[n]) for n in before if n != 'r'):
                self.stats['alias-mutation'] += 1
        else:
            st_['failed'] += 1
            self.stats['failed'] += 1
            ok = (got is None) if expected is None else (equal(got, expected) and isinstance(got, bool) == isinstance(expected, bool))
            if outcome == 'fail-default':
                ok = got is None or equal(got, expected)
            if not failed_log:
                self.fail('%s must fail (invalid argument) but returned %r without failing' % (line, _short(got)), 'missing-failure:' + name)
            if not ok:
                self.fail('failing %s returned %r, documented failure value is %r' % (line, _short(got), expected), 'failure-value:' + name)
            self.h.model['r'] = copy.deepcopy(got) if not isinstance(got, (list, dict)) else self.h.model.get('r')
            if isinstance(got, (list, dict)):
                # objectGet default that is a pool container: r aliases it in both worlds
                idx = [i for i, v in enumerate(values) if isinstance(v, (list, dict))]
                self.h.model['r'] = values[2] if len(values) > 2 else None
            for n in before:
                if n != 'r' and not equal(before[n], self.h.model[n]):
                    raise AssertionError('harness: model changed on a failing call')
        self.check_state(line)

    @rule(seed=st.integers(0, 2 ** 32 - 1))
    def save_or_alias(self, seed):
        rnd = random.Random(seed)
        m = self.h.model
        k = rnd.random()
        if k < 0.4:
            target = rnd.choice(SAVED)
            line = '%s = r' % target
            self.exec_both(line, None)
            m[target] = m['r']
        elif k < 0.7:
            src = rnd.choice(ARRAYS)
            dst = rnd.choice(ARRAYS)
            line = '%s = %s' % (dst, src)
            self.exec_both(line, None)
            m[dst] = m[src]
        else:
            src, dst = rnd.choice(OBJECTS), rnd.choice(OBJECTS)
            line = '%s = %s' % (dst, src)
            self.exec_both(line, None)
            m[dst] = m[src]
        self.check_state(line)

    @rule(seed=st.integers(0, 2 ** 32 - 1))
    def fresh(self, seed):
        rnd = random.Random(seed)
        m = self.h.model
        k = rnd.random()
        if k < 0.4:
            n = rnd.choice(ARRAYS)
            vals = [rnd.choice([0.0, 1.0, 2.0, 'a', 'b', None, True]) for _ in range(rnd.randint(0, 5))]
            line = '%s = arrayNew(%s)' % (n, ', '.join(lit(v) for v in vals))
            self.exec_both(line, None)
            m[n] = list(vals)
        elif k < 0.7:
            n = rnd.choice(OBJECTS)
            keys = rnd.sample(KEYS, rnd.randint(0, 3))
            vals = [rnd.choice([0.0, 1.0, 'v', None]) for _ in keys]
            line = '%s = objectNew(%s)' % (n, ', '.join('%s, %s' % (lit(k2), lit(v)) for k2, v in zip(keys, vals)))
            self.exec_both(line, None)
            m[n] = dict(zip(keys, vals))
        else:
            n = rnd.choice(STRINGS)
            v = rnd.choice(STRING_POOL)
            line = '%s = %s' % (n, lit(v))
            self.exec_both(line, None)
            m[n] = v
        self.check_state(line)

    def teardown(self):
        ctx = Machine.ctx
        if ctx is not None and self.steps:
            nt = self.stats['alias-mutation'] >= 1 and self.stats['failed'] >= 1
            classes = ['sequence', 'steps>=10' if len(self.steps) >= 10 else 'steps<10']
            for name, s in self.fn_stats.items():
                if s['ok']:
                    classes.append('fn:%s:ok' % name)
                if s['failed']:
                    classes.append('fn:%s:failed' % name)
            ctx.case(digest(self.steps), nt, classes, {'steps': self.steps[1:12]})


def _short(v):
    return repr(v)[:100]


# ---- stateless: regexEscape and URL encoding ----------------------------------------------------------------------------------------------

UNRESERVED = set('ABCDEFGHIJKLMNOPQRSTUVWXYZabcdefghijklmnopqrstuvwxyz0123456789-_.~')
ESC_ALPHABET = list('ab.*+?()[]{}|^$\\/-# \t') + ['é', '\U0001f600', '"', "'", ',', ':', '<', '0']
URL_ALPHABET = list('ab /?#&=+:%@!$\'()*,;[]-_.~"<>\\^`{|}') + ['é', '\U0001f600', '\x7f', '\t'] + \
    ['e\u0301', '\u0301', '\u212b', '\u2126', '\u1100\u1161', '\uf900', '\ufb01', '\u00c5', '\u0041\u030a', '\u3000', '\u200d', '%41', '%e9', '%', '\u0130', '\u00df']   # not in NFC / NFKC form, case-folding oddities
_esc = {}


def check_regex_escape(s):
    d = {'kind': 'regexEscape', 's': s}
    if 'm' not in _esc:
        _esc['m'] = impl.bs.parse_script("rx = regexNew('^' + regexEscape(ss) + '$', 's')\nreturn arrayNew(regexEscape(ss), rx != null, if(rx != null, regexMatch(rx, ss) != null), "
                                         "if(rx != null, regexMatch(rx, tt) != null))")
    for other in neighbours(s):
        log = []
        out = impl.run_model(_esc['m'], {'ss': s, 'tt': other}, log, debug=True)
        if out.kind != 'ok' or not isinstance(out.value, list):
            raise Violation('regexEscape(%r): %r' % (s, out), d, 'regexEscape-raises')
        esc, compiled, matches_self, matches_other = out.value
        if not isinstance(esc, str) or not compiled:
            raise Violation('regexEscape(%r) = %r does not compile as a pattern (%s)' % (s, esc, log[:1]), d, 'regexEscape-compile')
        if matches_self is not True:
            raise Violation('the pattern ^%s$ from regexEscape(%r) does not match the string itself' % (esc, s), d, 'regexEscape-self')
        if matches_other is True and other != s:
            raise Violation('the pattern ^%s$ from regexEscape(%r) also matches %r' % (esc, s, other), dict(d, other=other), 'regexEscape-neighbour')


def neighbours(s):
    out = [s]
    for i in range(len(s) + 1):
        out.append(s[:i] + 'a' + s[i:])
        if i < len(s):
            out.append(s[:i] + s[i + 1:])
            out.append(s[:i] + ('b' if s[i] != 'b' else 'c') + s[i + 1:])
    return out[:40]


def check_url(s):
    d = {'kind': 'url', 's': s}
    if 'u' not in _esc:
        _esc['u'] = impl.bs.parse_script('return arrayNew(urlEncode(ss), urlEncodeComponent(ss))')
    out = impl.run_model(_esc['u'], {'ss': s})
    if out.kind != 'ok' or not isinstance(out.value, list):
        raise Violation('urlEncode(%r): %r' % (s, out), d, 'url-raises')
    for name, enc_, allowed in (('urlEncode', out.value[0], UNRESERVED | set("':/&+!*()#$,;=?@[]")), ('urlEncodeComponent', out.value[1], UNRESERVED | set("'!*()"))):
        if not isinstance(enc_, str):
            raise Violation('%s(%r) = %r' % (name, s, enc_), d, 'url-type:' + name)
        if urllib.parse.unquote(enc_) != s:
            raise Violation('%s(%r) = %r does not percent-decode to the input' % (name, s, enc_), d, 'url-reversible:' + name)
        rest = re.sub(r'%[0-9A-Fa-f]{2}', '', enc_)
        bad = [c for c in rest if c not in allowed]
        if bad:
            raise Violation('%s(%r) = %r leaves %r unencoded' % (name, s, enc_, bad[:3]), d, 'url-charset:' + name)


ODD_SETUP = ['a0 = arrayNew(1, 2, 3)', "o0 = objectNew('a', 1)", "s0 = 'abcab'", 'bigO = objectNew()', 'bigA = arrayNew()', 'ii = 0', 'while ii < 120:',
             "    objectSet(bigO, 'k' + ii, ii)", '    arrayPush(bigA, ii)', '    ii = ii + 1', 'endwhile', "bigS = stringRepeat('abc', 100)", 'inf = 1e+308 * 10',
             'nanv = inf - inf', 'cyA = arrayNew(1)', 'arrayPush(cyA, cyA)', 'cyO = objectNew()', "objectSet(cyO, 'self', cyO)",
             'farD = datetimeNew(9999, 12, 31, 23, 59, 59, 999)']
# an array nested deeper than the host stack can serialise (the message of the argument error cannot show it); built by a loop, no recursion involved
DEEP_SETUP = ['deepA = arrayNew(7)', 'jj = 0', 'while jj < 3000:', '    deepA = arrayNew(deepA)', '    jj = jj + 1', 'endwhile']
VALID_TEXT = {'array': 'a0', 'object': 'o0', 'string': 's0', 'key': "'a'", 'index': '0', 'search': "'a'", 'any': '1', 'code': '65'}


def check_odd_wrong(fn, pos, odd):
    """fn called with valid arguments except an odd value of another type at position pos: the documented failure value, arguments unchanged."""
    d = {'kind': 'odd-wrong', 'fn': fn, 'pos': pos, 'odd': odd}
    sig = [x.lstrip('?*') for x in Machine.SIGNATURES[fn]]
    texts = [VALID_TEXT['key' if t == 'kv' else t] for t in sig]
    texts[pos] = odd
    src = '\n'.join(ODD_SETUP + (DEEP_SETUP if odd == 'deepA' else []) + ['r = %s(%s)' % (fn, ', '.join(texts))])
    for debug in (False, True):
        real, log = {}, []
        limit = sys.getrecursionlimit()
        if odd == 'deepA':
            sys.setrecursionlimit(1000)        # the host default (the runner raises it for its own reference code)
        try:
            out = impl.run_source(src, real, log, 20000, debug=debug)
        finally:
            sys.setrecursionlimit(limit)
        if out.kind != 'ok':
            raise Violation('%s(%s) ended the script with %r' % (fn, ', '.join(texts), out), d, 'odd-wrong-raises:' + fn)
        got, want = real.get('r'), rl.FAILURE_VALUES.get(fn)
        if fn == 'objectGet':
            want = 1.0        # the supplied default
        ok = (got is None) if want is None else (equal(got, want) and isinstance(got, bool) == isinstance(want, bool))
        if not ok:
            raise Violation('%s(%s) with a wrong-typed argument returned %r, the documented failure value is %r (debug=%r)' % (fn, ', '.join(texts), _short(got), want, debug),
                            d, 'odd-wrong-value:' + fn)
        if debug and not any('Function "%s" failed' % fn in m for m in log):
            raise Violation('%s(%s) with a wrong-typed argument logged no failure in debug mode' % (fn, ', '.join(texts)), d, 'odd-wrong-log:' + fn)
        if not (equal(real['a0'], [1.0, 2.0, 3.0]) and equal(real['o0'], {'a': 1.0}) and real['s0'] == 'abcab' and len(real['bigO']) == 120 and len(real['bigA']) == 120
                and len(real['cyA']) == 2 and len(real['cyO']) == 1):
            raise Violation('%s(%s) with a wrong-typed argument changed an argument' % (fn, ', '.join(texts)), d, 'odd-wrong-changed:' + fn)


def odd_wrong_cases():
    for fn in sorted(Machine.SIGNATURES):
        for pos, t in enumerate(Machine.SIGNATURES[fn]):
            t = t.lstrip('?*')
            for odd in ODD_WRONG.get(t, []) + (['farD'] if t in ODD_WRONG else []) + (['deepA'] if t in ('object', 'string', 'key', 'index') else []):
                yield fn, pos, odd


def plan(tier):
    k = 12 if tier == 'quick' else 16
    specs = [{'kind': 'machine', 'n': 300 if tier == 'quick' else 6000, 'k': i} for i in range(k)]
    specs += [{'kind': 'stateless', 'n': 4000 if tier == 'quick' else 40000, 'k': i} for i in range(2 if tier == 'quick' else 4)]
    specs += [{'kind': 'odd-wrong'}]
    return specs


def run_shard(ctx, spec):
    if spec['kind'] == 'stateless':
        def prop(s, u):
            check_regex_escape(s)
            check_url(u)
            ctx.case(digest([s, u]), bool(set(s) & set('.*+?()[]{}|^$\\')) or bool(set(u) - UNRESERVED), ['stateless'], {'regexEscape': s, 'url': u})
        run_hypothesis(ctx, prop, [st.lists(st.sampled_from(ESC_ALPHABET), max_size=7).map(''.join),
                                   st.one_of(st.lists(st.sampled_from(URL_ALPHABET), max_size=10).map(''.join), st.text(max_size=6))], spec['n'], salt=90 + spec['k'])
        return
    if spec['kind'] == 'odd-wrong':
        n = 0
        for fn, pos, odd in odd_wrong_cases():
            try:
                check_odd_wrong(fn, pos, odd)
            except Violation as v:
                ctx.violation(v)
            ctx.case(digest(['odd-wrong', fn, pos, odd]), True, ['odd-wrong:' + odd], {'call': fn, 'position': pos, 'argument': odd})
            n += 1
        ctx.exhaustive['every typed parameter of the %d functions x odd wrong-typed values (%d calls)' % (len(Machine.SIGNATURES), n)] = True
        # regexEscape, exhaustively on short strings: everything of length <= 4 over the characters of a repetition count, every pair of the alphabet
        import itertools
        texts = [''.join(t) for k in range(0, 5) for t in itertools.product('a{},1', repeat=k)]
        texts += [x + y for x in ESC_ALPHABET for y in ESC_ALPHABET] + ['a{2}', 'id{1,3}', 'x{,}', '{3}x', 'f(x){2,}', 'path/{0}/item', 'a{1,2}b{3}', '(?i)a', '(?#c)', '\\Qa\\E', '[[:alpha:]]']
        for t in sorted(set(texts)):
            try:
                check_regex_escape(t)
            except Violation as v:
                ctx.violation(v)
            ctx.case(digest(['regexEscape', t]), bool(set(t) & set('.*+?()[]{}|^$\\')), ['regexEscape-short-exhaustive'], {'regexEscape': t})
        ctx.exhaustive['regexEscape: all strings of length <= 4 over a { } , 1 and all pairs of the %d-symbol alphabet' % len(ESC_ALPHABET)] = True
        return
    Machine.ctx = ctx
    suppressed = set()
    for round_ in range(3):
        machine = hypothesis.seed(hyp_seed(ctx.seed, ctx.shard, 300 + spec['k'] * 8 + round_))(Machine)
        stt = settings(max_examples=spec['n'], stateful_step_count=30, deadline=None, database=None, derandomize=False, report_multiple_bugs=False,
                       print_blob=False, suppress_health_check=list(HealthCheck), phases=[Phase.generate, Phase.shrink])
        try:
            run_state_machine_as_test(machine, settings=stt)
            break
        except Violation as v:
            ctx.violation(v)
            break
        except AssertionError:
            raise
    Machine.ctx = None


def replay(detail):
    if detail.get('kind') == 'regexEscape':
        check_regex_escape(detail['s'])
        return
    if detail.get('kind') == 'url':
        check_url(detail['s'])
        return
    if detail.get('kind') == 'odd-wrong':
        check_odd_wrong(detail['fn'], detail['pos'], detail['odd'])
        return
    # a sequence: re-run the recorded script lines on fresh globals and on a model built by the reference interpreter
    from pbt.refsem import interp
    from pbt.gen.reader import read_program
    real = {}
    log = []
    src = '\n'.join(detail['steps'])
    out = impl.run_source(src, real, log, 5000)
    rg = {}
    ref = interp.Ref(rg, [])
    try:
        ref.run_program(read_program(src))
    except interp.Indeterminate:
        return
    names = [n for n in ARRAYS + OBJECTS + STRINGS + SAVED + ['r'] if n in rg]
    for n in names:
        if not equal(real.get(n), rg[n]):
            raise Violation('after the recorded steps %s is %r, the list/dict/str model has %r' % (n, _short(real.get(n)), _short(rg[n])), detail, 'state')
    if alias_partition(real, names) != alias_partition(rg, names):
        raise Violation('after the recorded steps the aliasing differs', detail, 'aliasing')
