"""C19 - data functions implement their relational meaning; CSV typing round-trips."""
import copy
import datetime
import math
import os
import random
import time

from hypothesis import strategies as st

from pbt.common import impl
from pbt.common.core import Violation, dec, digest, enc, run_hypothesis
from pbt.gen import exprs as ge
from pbt.refsem import interp
from pbt.refsem.values import is_number, ref_compare, ref_string, truthy, values_equal

ID = 'C19'
LEVEL = 'exploration'
RULE = ('Seeded tables of up to 12 rows x 5 fields (duplicate keys, nulls, missing fields, mixed key types incl. 1 vs 1.0 vs "1" vs true, colliding '
        'names a/a2/a3, key strings with JSON punctuation such as "a.,b" vs "a,b") pushed through scripts: dataFilter / dataCalculatedField / '
        'dataJoin with generated expressions over the row fields (with and without a variables object, optional right expression, both '
        'isLeftJoin values), dataSort with 1-3 keys and directions, dataTop with float-literal counts and 0-2 category fields, dataAggregate '
        'with every aggregation function and 0-2 categories. Oracle: relational reference model (order-preserving selection of the same row '
        'objects; stable order by the comparison; first n per category; partition by category values with count/sum/min/max/average/population '
        'stddev of the non-null measures, relative tolerance 1e-9; join pairing by equal key value, left fields never overwritten, right fields '
        'renamed to the first free nameN; calculated value on every row). CSV: typed columns written by the harness\'s own writer and read back '
        'with dataParseCSV from one or several text arguments in 4 fixed-offset zones; date-like invalid text stays a string. Non-trivial: >= 2 '
        'rows share a key and >= 1 null or punctuation-bearing key (tables); a column with nulls or quoted cells (CSV). Distinct by table + call.')
RULE += ' Also: calculated-field expressions without a field reference that have an effect or build a container (evaluated once per row, own container per row); script globals and variables named like a row field; records shorter than the header; date-like cells with non-ASCII digits.'
RULE += ' Round 7: aggregation measures published under names of their own (the empty string included) for either measure; CSV string cells that differ from null / true / false only by blanks or letter case.'
ASSUMPTIONS = ['what happens to left rows without a match is not asserted (the suite pins behaviour opposite to the documentation): kept alone or dropped',
               'the order of groups in dataTop/dataAggregate output is not asserted, only membership and per-group order',
               'CSV writer preconditions: null is written "null"; an empty cell stands for null only in number/boolean/datetime columns that have '
               'another value and in tables of >= 2 columns; string cells contain a character that rules out every other type and no line-break characters']

KEYS = [None, 1.0, 2.0, 2, 'a', 'b', 'a.,b', 'a,b', 'x.0]', 'x]', '1', True, False, 'null', '', 1, 3.5]
FIELDS = ['a', 'b', 'a2', 'a3', 'c']
NUMS = [None, 1.0, 2.5, -3.0, 10.0, 0.0, 7.25, 2, 1e3]
_m = {}


def model(src):
    if src not in _m:
        _m[src] = impl.bs.parse_script(src)
    return _m[src]


def table(rnd, n=None, numeric=False):
    rows = []
    for _ in range(rnd.randint(0, 12) if n is None else n):
        r = {}
        for f in FIELDS:
            if rnd.random() < 0.75:
                r[f] = copy.deepcopy(rnd.choice(KEYS))
        if numeric:
            r['m'] = rnd.choice(NUMS)
            r['n'] = rnd.choice([1.0, 2.0, 3.0, None])
            if rnd.random() < 0.15:
                del r['m']
        rows.append(r)
    return rows


# script globals that carry the name of a row field: a row that lacks the field reads the global (ordinary variable lookup: row members first, then
# the variables object, then the globals)
SCRIPT_GLOBALS = {}


def run_call(src, globals_):
    log = []
    globals_ = dict(SCRIPT_GLOBALS, **globals_)
    out = impl.run_model(model(src), globals_, log, 100000, debug=True)
    return out, [m for m in log if 'failed with error' in m]


def same(a, b):
    return values_equal(a, b, lambda x, y: True)


def near(a, b):
    if a is None or b is None:
        return a is None and b is None
    if isinstance(a, bool) or isinstance(b, bool):
        return a is b
    if is_number(a) and is_number(b):
        return a == b or abs(a - b) <= 1e-9 * max(abs(a), abs(b), 1e-300)
    return same(a, b)


def rows_equal(got, exp, tol=False):
    if not isinstance(got, list) or len(got) != len(exp):
        return False
    for g, e in zip(got, exp):
        if not isinstance(g, dict) or set(g) != set(e):
            return False
        for k in e:
            if not (near(g[k], e[k]) if tol else same(g[k], e[k])):
                return False
    return True


# ---- expressions over rows ---------------------------------------------------------------------------------------------------------------

def gen_row_expr(rnd, kind):
    f = lambda: ('var', rnd.choice(FIELDS))  # noqa: E731
    lit_ = lambda: rnd.choice([('num', '1', 1.0), ('num', '2', 2.0), ('str', "'a'", 'a'), ('str', "'a,b'", 'a,b'), ('var', 'null'), ('var', 'true'), ('var', 'vv')])  # noqa: E731
    k = rnd.random()
    if kind == 'bool':
        if k < 0.4:
            return ('bin', rnd.choice(['==', '!=', '<', '<=', '>', '>=']), f(), rnd.choice([f, lit_])())
        if k < 0.55:
            return f()
        if k < 0.7:
            return ('unary', '!', f())
        if k < 0.85:
            return ('bin', rnd.choice(['&&', '||']), gen_row_expr(rnd, 'bool'), gen_row_expr(rnd, 'bool'))
        return ('bin', '==', ('call', 'systemType', [f()]), ('str', "'%s'" % rnd.choice(['string', 'number', 'null']), None))
    if kind == 'key':
        if k < 0.6:
            return f()
        if k < 0.8:
            return ('bin', '+', ('str', "'k:'", 'k:'), f())
        if k < 0.9:
            return ('call', 'arrayNew', [f(), f()])
        return ('bin', '+', f(), ('var', 'vv'))
    # value
    if k < 0.3:
        return ('bin', rnd.choice(['+', '-', '*']), f(), rnd.choice([f, lit_])())
    if k < 0.5:
        return ('bin', '+', ('str', "'<'", '<'), f())
    if k < 0.7:
        return ('call', 'if', [gen_row_expr(rnd, 'bool'), f(), lit_()])
    if k < 0.85:
        return f()
    return ('call', 'stringNew', [f()])


def fix_str_nodes(e):
    if e[0] == 'str' and e[2] is None:
        return ('str', e[1], e[1][1:-1])
    if e[0] == 'bin':
        return ('bin', e[1], fix_str_nodes(e[2]), fix_str_nodes(e[3]))
    if e[0] in ('unary',):
        return ('unary', e[1], fix_str_nodes(e[2]))
    if e[0] == 'call':
        return ('call', e[1], [fix_str_nodes(a) for a in e[2]])
    return e


def expr_text(e):
    toks, _ = ge.print_tree(e)
    return ge.join_tokens(toks)


def ref_eval(e, row, variables):
    g = dict(SCRIPT_GLOBALS, **(variables or {}))
    ref = interp.Ref(g, [], library=True)
    return ref.ev(e, dict(row))


# ---- the six relational checks ------------------------------------------------------------------------------------------------------------

def check_filter(rows, e, variables):
    d = {'kind': 'filter', 'rows': enc(rows), 'expr': expr_text(e), 'variables': enc(variables), 'script_globals': enc(SCRIPT_GLOBALS)}
    data = copy.deepcopy(rows)
    src = "return dataFilter(dd, ee, vs)" if variables is not None else "return dataFilter(dd, ee)"
    out, failed = run_call(src, {'dd': data, 'ee': expr_text(e), 'vs': variables})
    try:
        keep = [i for i, r in enumerate(rows) if truthy(ref_eval(e, r, variables))]
    except interp.Indeterminate:
        return None
    if out.kind != 'ok' or failed or not isinstance(out.value, list):
        raise Violation('dataFilter(%r) failed: %r %r' % (d['expr'], out, failed[:1]), d, 'filter-fails')
    if [id(r) for r in out.value] != [id(data[i]) for i in keep]:
        raise Violation('dataFilter(%r) kept rows %r, the rows whose expression is truthy are %r' % (
            d['expr'], [next((j for j, x in enumerate(data) if x is r), '?') for r in out.value], keep), d, 'filter-selection')
    if not rows_equal(data, rows):
        raise Violation('dataFilter modified its rows', d, 'filter-mutates')
    return len(keep)


def check_calculated(rows, e, variables, field):
    d = {'kind': 'calc', 'rows': enc(rows), 'expr': expr_text(e), 'variables': enc(variables), 'field': field, 'script_globals': enc(SCRIPT_GLOBALS)}
    data = copy.deepcopy(rows)
    src = "return dataCalculatedField(dd, ff, ee, vs)" if variables is not None else "return dataCalculatedField(dd, ff, ee)"
    out, failed = run_call(src, {'dd': data, 'ee': expr_text(e), 'vs': variables, 'ff': field})
    try:
        exp = []
        for r in rows:
            r2 = dict(r)
            r2[field] = ref_eval(e, r, variables)
            exp.append(r2)
    except interp.Indeterminate:
        return None
    if out.kind != 'ok' or failed or out.value is not data:
        raise Violation('dataCalculatedField(%r, %r) failed or did not return the data array: %r %r' % (field, d['expr'], out, failed[:1]), d, 'calc-fails')
    if not rows_equal(data, exp, tol=True):
        raise Violation('dataCalculatedField(%r, %r) gives %r, expected %r' % (field, d['expr'], data[:3], exp[:3]), d, 'calc-values')
    return len(rows)


IMPURE_EXPRS = ['tick()', 'arrayNew()', 'arrayNew(tick())', "objectNew('k', tick())", 'tick() + 100', 'arrayNew(1, 2)', 'objectNew()', "if(tick() > 2, 'late', 'early')",
                'tick() * 0 + n', 'arrayNew(vv)']


def check_calculated_per_row(rows, text, with_variables, field):
    """The expression is evaluated for every row, in row order - also when it mentions no field of the row: a function with an effect runs
    once per row, and an expression that builds an array / object gives every row its own."""
    d = {'kind': 'calc-per-row', 'rows': enc(rows), 'expr': text, 'with_variables': with_variables, 'field': field}
    data = copy.deepcopy(rows)
    ticks = []

    def tick(args, options):
        ticks.append(len(ticks) + 1)
        return float(len(ticks))
    src = "return dataCalculatedField(dd, ff, ee, objectNew('vv', 5))" if with_variables else "return dataCalculatedField(dd, ff, ee)"
    out, failed = run_call(src, {'dd': data, 'ee': text, 'ff': field, 'tick': tick, 'vv': 5.0})
    if out.kind != 'ok' or failed or out.value is not data:
        raise Violation('dataCalculatedField(%r, %r) failed or did not return the data array: %r %r' % (field, text, out, failed[:1]), d, 'calc-fails')
    uses_tick = 'tick()' in text
    if uses_tick and ticks != list(range(1, len(rows) + 1)):
        raise Violation('dataCalculatedField(%r, %r) over %d rows called the function in the expression %d times' % (field, text, len(rows), len(ticks)), d,
                        'calc-per-row-evaluation')
    from pbt.gen.reader import parse_expr
    tree = parse_expr(text)
    for i, (r, orig) in enumerate(zip(data, rows)):
        counter = [float(i)]

        def ref_tick(args, ref, counter=counter):
            counter[0] += 1
            return counter[0]
        ref = interp.Ref({'vv': 5.0}, [], host={'tick': ref_tick}, library=True)
        want = ref.ev(tree, dict(orig))
        if field not in r or not same(r[field], want):
            raise Violation('dataCalculatedField(%r, %r): row %d gets %r, evaluating the expression for that row gives %r' % (field, text, i, r.get(field), want), d,
                            'calc-per-row-value')
    containers = [r[field] for r in data if isinstance(r.get(field), (list, dict))]
    if text.startswith(('arrayNew', 'objectNew')) and len({id(c) for c in containers}) != len(containers):
        raise Violation('dataCalculatedField(%r, %r): several rows share ONE array / object (changing it in one row changes the others)' % (field, text), d,
                        'calc-shared-container')
    return len(rows)


def ref_sort(rows, sorts):
    import functools

    def rc(r1, r2):
        for s in sorts:
            c = ref_compare(r1.get(s[0]), r2.get(s[0]))
            if len(s) > 1 and s[1]:
                c = -c
            if c:
                return c
        return 0
    return sorted(rows, key=functools.cmp_to_key(rc))


def check_sort(rows, sorts):
    d = {'kind': 'sort', 'rows': enc(rows), 'sorts': sorts}
    data = copy.deepcopy(rows)
    for i, r in enumerate(data):
        r['_id'] = float(i)
    exp = [r['_id'] for r in ref_sort(data, sorts)]
    out, failed = run_call('return dataSort(dd, ss)', {'dd': data, 'ss': copy.deepcopy(sorts)})
    if out.kind != 'ok' or failed or not isinstance(out.value, list):
        raise Violation('dataSort(%r) failed: %r %r' % (sorts, out, failed[:1]), d, 'sort-fails')
    got = [r.get('_id') if isinstance(r, dict) else None for r in out.value]
    if got != exp:
        raise Violation('dataSort(%r) returned the rows in order %r, the stable order by the comparison is %r' % (sorts, got, exp), d, 'sort-order')
    return len(rows)


def group_rows(rows, cats):
    groups = []
    for r in rows:
        key = [r.get(c) for c in cats] if cats else []
        for gk, gl in groups:
            if all(ref_compare(x, y) == 0 for x, y in zip(gk, key)):
                gl.append(r)
                break
        else:
            groups.append((key, [r]))
    return groups


def check_top(rows, count, cats):
    d = {'kind': 'top', 'rows': enc(rows), 'count': count, 'cats': cats}
    data = copy.deepcopy(rows)
    src = 'return dataTop(dd, %d%s)' % (count, ', cc' if cats is not None else '')       # the count is a literal in source text
    out, failed = run_call(src, {'dd': data, 'cc': cats})
    if out.kind != 'ok' or failed or not isinstance(out.value, list):
        raise Violation('dataTop(data, %d, %r) failed: %r %r' % (count, cats, out, failed[:1]), d, 'top-fails')
    got_ids = [id(r) for r in out.value]
    if len(set(got_ids)) != len(got_ids) or any(i not in {id(r) for r in data} for i in got_ids):
        raise Violation('dataTop returned rows that are not (distinct) rows of the input', d, 'top-rows')
    for key, members in group_rows(data, cats):
        want = [id(r) for r in members[:count]]
        got = [i for i in got_ids if i in {id(r) for r in members}]
        if got != want:
            raise Violation('dataTop(data, %d, %r): category %r keeps rows %r, its first %d rows are %r' % (
                count, cats, key, [next(j for j, x in enumerate(data) if id(x) == i) for i in got], count,
                [next(j for j, x in enumerate(data) if id(x) == i) for i in want]), d, 'top-selection')
    return len(rows)


def check_aggregate(rows, cats, measures):
    d = {'kind': 'agg', 'rows': enc(rows), 'cats': cats, 'measures': measures}
    data = copy.deepcopy(rows)
    agg = {'measures': copy.deepcopy(measures)}
    if cats:
        agg['categories'] = list(cats)
    out, failed = run_call('return dataAggregate(dd, aa)', {'dd': data, 'aa': agg})
    if out.kind != 'ok' or failed or not isinstance(out.value, list):
        raise Violation('dataAggregate(%r) failed: %r %r' % (agg, out, failed[:1]), d, 'aggregate-fails')
    exp = []
    for key, members in group_rows(rows, cats):
        row = dict(zip(cats, key)) if cats else {}
        for ms in measures:
            vals = [r.get(ms['field']) for r in members if r.get(ms['field']) is not None]
            f = ms['function']
            if not vals:
                v = None
            elif f == 'count':
                v = len(vals)
            elif f == 'sum':
                v = math.fsum(vals)
            elif f == 'min':
                v = min(vals)
            elif f == 'max':
                v = max(vals)
            elif f == 'average':
                v = math.fsum(vals) / len(vals)
            else:
                mu = math.fsum(vals) / len(vals)
                v = math.sqrt(math.fsum((x - mu) ** 2 for x in vals) / len(vals))
            row[ms.get('name', ms['field'])] = v
        exp.append(row)
    got = list(out.value)
    if len(got) != len(exp):
        raise Violation('dataAggregate produced %d groups, the category values partition the rows into %d' % (len(got), len(exp)), d, 'aggregate-groups')
    for e in exp:
        match = [g for g in got if isinstance(g, dict) and set(g) == set(e) and all(ref_compare(g[c], e[c]) == 0 for c in (cats or []))]
        if len(match) != 1:
            raise Violation('dataAggregate has %d rows for category %r' % (len(match), [e[c] for c in (cats or [])]), d, 'aggregate-groups')
        for k in e:
            if not near(match[0][k], e[k]):
                raise Violation('dataAggregate %s of group %r is %r, expected %r' % (k, [e[c] for c in (cats or [])], match[0][k], e[k]), d, 'aggregate-value:' + k[:3])
    return len(exp)


def check_join(left, right, le, re_, is_left, variables):
    d = {'kind': 'join', 'script_globals': enc(SCRIPT_GLOBALS), 'left': enc(left), 'right': enc(right), 'lexpr': expr_text(le), 'rexpr': expr_text(re_) if re_ else None, 'isLeft': is_left,
         'variables': enc(variables)}
    L, R = copy.deepcopy(left), copy.deepcopy(right)
    args = ['ll', 'rr', 'le']
    g = {'ll': L, 'rr': R, 'le': expr_text(le), 're': expr_text(re_) if re_ else None, 'il': is_left, 'vs': variables}
    if re_ is not None or is_left is not None or variables is not None:
        args.append('re')
    if is_left is not None or variables is not None:
        args.append('il')
    if variables is not None:
        args.append('vs')
    out, failed = run_call('return dataJoin(%s)' % ', '.join(args), g)
    try:
        lkeys = [ref_eval(le, r, variables) for r in left]
        rkeys = [ref_eval(re_ or le, r, variables) for r in right]
    except interp.Indeterminate:
        return None
    if any(isinstance(k, (datetime.date,)) or callable(k) for k in lkeys + rkeys):
        return None
    if out.kind != 'ok' or failed or not isinstance(out.value, list):
        raise Violation('dataJoin(%r) failed: %r %r' % (d['lexpr'], out, failed[:1]), d, 'join-fails')
    got = out.value
    lnames, rnames = [], []
    for r in left:
        for f in r:
            if f not in lnames:
                lnames.append(f)
    for r in right:
        for f in r:
            if f not in rnames:
                rnames.append(f)
    ren = {}
    for f in rnames:
        if f not in lnames:
            ren[f] = f
        else:
            i = 2
            while f + str(i) in lnames or f + str(i) in ren.values() or f + str(i) in rnames:
                i += 1
            ren[f] = f + str(i)
    pos = 0
    pairs = 0
    for li, lr in enumerate(left):
        ms = [right[ri] for ri in range(len(right)) if ref_compare(lkeys[li], rkeys[ri]) == 0]
        if ms:
            for rr in ms:
                e = dict(lr)
                for k, v in rr.items():
                    e[ren[k]] = v
                if pos >= len(got) or not rows_equal([got[pos]], [e]):
                    raise Violation('dataJoin row %d is %r, expected left row %d joined with a right row of equal key %r: %r' % (
                        pos, got[pos] if pos < len(got) else None, li, lkeys[li], e), d, 'join-pairing')
                for k in lr:
                    if not same(got[pos][k], lr[k]):
                        raise Violation('dataJoin overwrote left field %r' % k, d, 'join-overwrites-left')
                pos += 1
                pairs += 1
        else:
            if pos < len(got) and rows_equal([got[pos]], [lr]):
                pos += 1          # an unmatched left row: kept alone or dropped, both accepted
    if pos != len(got):
        raise Violation('dataJoin produced %d rows, %d are accounted for by equal keys: extra row %r' % (len(got), pos, got[pos] if pos < len(got) else None), d, 'join-extra-rows')
    if not rows_equal(L, left) or not rows_equal(R, right):
        raise Violation('dataJoin modified its input rows', d, 'join-mutates')
    return pairs


# ---- CSV ----------------------------------------------------------------------------------------------------------------------------------

CSV_ZONES = ['UTC', 'Asia/Kathmandu', 'Etc/GMT+12', 'Asia/Kolkata']
SAFE = 'qxz #;:!?()[]{}<>=&|*%$@^~`'
DATELIKE = ['2100-02-29', '1900-02-29', '2200-02-29T00:00:00Z', '2024-02-30', '2023-13-01', '2021-00-10', '2024-02-30T10:00:00Z', '2024-01-01T25:00:00+00:00', '0000-01-01', '2024-04-31', '2023-02-29',
            '\uff12\uff10\uff12\uff12-\uff10\uff18-\uff12\uff19', '2022-08-2\u0669', '2022-08-29T15:08:00+0\uff15:30', '2022-08-2\uff19T15:08:00Z', '2022\u201308\u201329']


WORDLIKE = [' null', 'null ', ' null ', 'Null', 'NULL', 'nulls', 'null.', ' true', 'false ', 'True', 'FALSE', 'nu ll', 'null\t']


def csv_quote(s):
    if s == '':
        return s
    if any(c in s for c in ',"') or s != s.strip():
        return '"' + s.replace('"', '""') + '"'
    return s


def gen_csv(rnd):
    ncol = rnd.randint(1, 5)
    types = [rnd.choice(['num', 'bool', 'dt', 'date', 'str', 'datelike']) for _ in range(ncol)]
    names = ['c%d' % i for i in range(ncol)]
    if ncol > 1 and rnd.random() < 0.15:
        names[rnd.randrange(ncol)] = rnd.choice(['', 'a b', '0', 'c 1'])        # (a column may be named by the empty string, a number, words)

    def rstr():
        body = ''.join(rnd.choice('abqxz ,"\'.-0123456789:T+' + SAFE) for _ in range(rnd.randint(0, 8)))
        return body + rnd.choice('qxz') + ''.join(rnd.choice('abqxz ,".') for _ in range(rnd.randint(0, 3)))

    def rdt():
        # (from 1987: Asia/Kathmandu moved from +05:30 to +05:45 on 1986-01-01, so 1986-01-01T00:00 does not exist there)
        return datetime.datetime(rnd.randint(1987, 2090), rnd.randint(1, 12), rnd.randint(1, 28), rnd.randint(0, 23), rnd.randint(0, 59), rnd.randint(0, 59),
                                 rnd.choice([0, 123000, 999000]))
    rows = []
    for _ in range(rnd.randint(1, 8)):
        r = []
        for t in types:
            if rnd.random() < 0.15 and t != 'datelike':
                r.append(None)
            elif t == 'num':
                r.append(rnd.choice([0.0, 1.0, -2.5, 1e21, 1e-7, 123456789.125, float(rnd.randint(-1000, 1000)), rnd.random() * 1e6]))
            elif t == 'bool':
                r.append(rnd.choice([True, False]))
            elif t == 'dt':
                r.append(rdt())
            elif t == 'date':
                x = rdt()
                r.append(datetime.datetime(x.year, x.month, x.day))
            elif t == 'str':
                # (strings that differ from the words null / true / false only by blanks or letter case are strings)
                r.append(rnd.choice(WORDLIKE) if rnd.random() < 0.12 else rstr())
            else:
                r.append(rnd.choice(DATELIKE))
        rows.append(r)
    hasval = [any(r[i] is not None for r in rows) for i in range(ncol)]

    def cell(v, t, i):
        if v is None:
            return rnd.choice(['null', '']) if (t not in ('str', 'datelike') and ncol > 1 and hasval[i]) else 'null'
        if t == 'date' and rnd.random() < 0.5:
            return '%04d-%02d-%02d' % (v.year, v.month, v.day)
        if t in ('str', 'datelike'):
            return csv_quote(v)
        if t == 'bool':
            return 'true' if v else 'false'
        return ref_string(v)
    def cells_of(r):
        cs = [cell(v, t, i) for i, (v, t) in enumerate(zip(r, types))]
        if rnd.random() < 0.3:
            # a writer that leaves trailing null cells out: a record shorter than the header (its missing cells are null)
            n = len(r)
            while n > 1 and r[n - 1] is None:
                n -= 1
            cs = cs[:n]
            if not ''.join(cs).strip():
                cs[0] = 'null'          # (an empty line is not a record)
        return cs
    lines = [','.join(names)] + [(',' + rnd.choice(['', ' '])).join(cells_of(r)) for r in rows]
    k = rnd.randint(1, len(lines))
    parts = ['\n'.join(lines)] if rnd.random() < 0.5 or k >= len(lines) else ['\n'.join(lines[:k]), rnd.choice(['\n', '\r\n']).join(lines[k:])]
    return names, types, rows, parts


def check_csv(tz, names, rows, parts):
    d = {'kind': 'csv', 'tz': tz, 'names': names, 'rows': enc(rows), 'parts': parts}
    os.environ['TZ'] = tz
    time.tzset()
    try:
        g = {'p%d' % i: p for i, p in enumerate(parts)}
        out, failed = run_call('return dataParseCSV(%s)' % ', '.join(sorted(g)), g)
    finally:
        os.environ['TZ'] = 'UTC'
        time.tzset()
    exp = [dict(zip(names, r)) for r in rows]
    if out.kind != 'ok' or failed or not isinstance(out.value, list):
        raise Violation('dataParseCSV failed on a well-formed typed table: %r %r' % (out, failed[:1]), d, 'csv-fails')
    if not rows_equal(out.value, exp):
        bad = next(((i, k) for i, (g2, e) in enumerate(zip(out.value, exp)) for k in e if k not in g2 or not same(g2.get(k), e[k])), None)
        raise Violation('dataParseCSV row/field %r is %r, the typed value written was %r' % (
            bad, out.value[bad[0]].get(bad[1]) if bad else None, exp[bad[0]][bad[1]] if bad else None), d, 'csv-roundtrip')


# ---- driver ---------------------------------------------------------------------------------------------------------------------------------

def shares_key(rows):
    seen = []
    dup = False
    for r in rows:
        k = r.get('a')
        if any(ref_compare(k, s) == 0 for s in seen):
            dup = True
        seen.append(k)
    interesting = any(v is None or (isinstance(v, str) and any(c in v for c in '.,]')) for r in rows for v in r.values())
    return dup and interesting


def plan(tier):
    k = 10 if tier == 'quick' else 16
    specs = [{'kind': 'tables', 'n': 3000 if tier == 'quick' else 30000, 'k': i} for i in range(k)]
    specs += [{'kind': 'csv', 'n': 3000 if tier == 'quick' else 30000, 'k': i} for i in range(2 if tier == 'quick' else 8)]
    return specs


def run_shard(ctx, spec):
    if spec['kind'] == 'csv':
        def cprop(seed):
            rnd = random.Random(seed)
            tz = rnd.choice(CSV_ZONES)
            os.environ['TZ'] = tz          # datetime cells are written with the zone's offset
            time.tzset()
            try:
                names, types, rows, parts = gen_csv(rnd)
            finally:
                os.environ['TZ'] = 'UTC'
                time.tzset()
            check_csv(tz, names, rows, parts)
            ctx.case(digest([tz, parts]), any(v is None for r in rows for v in r) or any('"' in p for p in parts),
                     ['csv', 'parts=%d' % len(parts)] + ['csv-col:' + t for t in set(types)], {'tz': tz, 'text': parts})
        run_hypothesis(ctx, cprop, [st.integers(0, 2 ** 32 - 1)], spec['n'], salt=80 + spec['k'])
        return

    def prop(seed):
        rnd = random.Random(seed)
        op = rnd.choice(['filter', 'calc', 'sort', 'top', 'agg', 'join', 'join'])
        variables = {'vv': rnd.choice([1.0, 'a', None])} if rnd.random() < 0.4 else None
        SCRIPT_GLOBALS.clear()
        if op in ('filter', 'calc', 'join') and rnd.random() < 0.3:
            for f in rnd.sample(FIELDS, rnd.randint(1, 2)):
                SCRIPT_GLOBALS[f] = copy.deepcopy(rnd.choice(KEYS[1:]))
            if variables is not None and rnd.random() < 0.3:
                variables[rnd.choice(FIELDS)] = rnd.choice(KEYS[1:])      # the variables object shadows the global, the row shadows both
        if op == 'filter':
            rows = table(rnd)
            e = fix_str_nodes(gen_row_expr(rnd, 'bool'))
            res = check_filter(rows, e, variables)
        elif op == 'calc' and rnd.random() < 0.25:
            rows = table(rnd)
            res = check_calculated_per_row(rows, rnd.choice(IMPURE_EXPRS), rnd.random() < 0.4, rnd.choice(['z', 'a', 'new']))
        elif op == 'calc':
            rows = table(rnd)
            e = fix_str_nodes(gen_row_expr(rnd, 'value'))
            res = check_calculated(rows, e, variables, rnd.choice(['z', 'a', 'new']))
        elif op == 'sort':
            rows = table(rnd)
            sorts = [[rnd.choice(FIELDS)] + ([rnd.choice([True, False])] if rnd.random() < 0.7 else []) for _ in range(rnd.randint(1, 3))]
            res = check_sort(rows, sorts)
        elif op == 'top' and rnd.random() < 0.4:
            # category values whose texts run into each other when glued together: (1, 12) and (11, 2), (2, 10) and (21, 0), (10.5, 2) and (1, 0.52)
            rows = table(rnd)
            pool = rnd.choice([[1, 11, 12, 2], [2, 21, 10, 0], [10.5, 1, 2, 0.52], [1, 11, 12, 2, 112, '1', '12', None, 1.0]])
            for r in rows:
                for f in ('a', 'b', 'c'):
                    r[f] = rnd.choice(pool)
            res = check_top(rows, rnd.randint(1, 2), rnd.choice([['a', 'b'], ['a', 'b'], ['b', 'c', 'a'], ['c', 'a']]))
        elif op == 'top':
            rows = table(rnd)
            res = check_top(rows, rnd.randint(1, 3), rnd.choice([None, ['a'], ['a', 'b'], ['c']]))
        elif op == 'agg':
            rows = table(rnd, numeric=True)
            cats = rnd.choice([None, ['a'], ['a', 'n'], ['b']])
            measures = [{'field': 'm', 'function': rnd.choice(['count', 'sum', 'min', 'max', 'average', 'stddev'])}]
            taken = set(cats or []) | {'m'}
            if rnd.random() < 0.3:
                # the first measure is published under a name of its own (any string that no category or other measure uses - the empty one included)
                measures[0]['name'] = rnd.choice([x for x in ['', 'total', ' ', 'm', 'M', '0', 'n', 'b', 'null', '\u03a3m'] if x not in (cats or [])])
                taken = set(cats or []) | {measures[0]['name']}
            if rnd.random() < 0.5:
                names = [x for x in ['second', 'second', '', 'n', 'm', 'a.b', '1', 'false'] if x not in taken]
                measures.append({'field': rnd.choice(['m', 'n']), 'function': rnd.choice(['count', 'sum', 'average', 'max']), 'name': rnd.choice(names)})
            res = check_aggregate(rows, cats or [], measures)
        else:
            rows = table(rnd, rnd.randint(0, 6))
            right = table(rnd, rnd.randint(0, 6))
            le = fix_str_nodes(gen_row_expr(rnd, 'key'))
            re_ = fix_str_nodes(gen_row_expr(rnd, 'key')) if rnd.random() < 0.3 else None
            res = check_join(rows, right, le, re_, rnd.choice([None, None, True, False]), variables)
        if res is None:
            ctx.discard('indeterminate-expression')
            return
        ctx.case(digest([op, seed]), shares_key(rows), ['op:' + op, 'variables' if variables is not None else 'no-variables', 'rows>=6' if len(rows) >= 6 else 'rows<6'],
                 {'op': op, 'rows': rows[:4]})
    run_hypothesis(ctx, prop, [st.integers(0, 2 ** 32 - 1)], spec['n'], salt=spec['k'], rounds=4)


def replay(detail):
    from pbt.gen.reader import parse_expr
    k = detail['kind']
    SCRIPT_GLOBALS.clear()
    SCRIPT_GLOBALS.update(dec(detail.get('script_globals') or {}))
    if k == 'csv':
        check_csv(detail['tz'], detail['names'], dec(detail['rows']), detail['parts'])
    elif k == 'filter':
        check_filter(dec(detail['rows']), parse_expr(detail['expr']), dec(detail['variables']))
    elif k == 'calc':
        check_calculated(dec(detail['rows']), parse_expr(detail['expr']), dec(detail['variables']), detail['field'])
    elif k == 'calc-per-row':
        check_calculated_per_row(dec(detail['rows']), detail['expr'], detail['with_variables'], detail['field'])
    elif k == 'sort':
        check_sort(dec(detail['rows']), detail['sorts'])
    elif k == 'top':
        check_top(dec(detail['rows']), detail['count'], detail['cats'])
    elif k == 'agg':
        check_aggregate(dec(detail['rows']), detail['cats'], detail['measures'])
    else:
        check_join(dec(detail['left']), dec(detail['right']), parse_expr(detail['lexpr']), parse_expr(detail['rexpr']) if detail.get('rexpr') else None,
                   detail['isLeft'], dec(detail['variables']))
