"""C01 - structured control flow runs with its source-level meaning."""
import copy
import datetime
import random

from hypothesis import strategies as st

from pbt.common import impl
from pbt.common.core import Violation, dec, digest, enc, run_hypothesis, ddmin_list
from pbt.gen import programs as gp
from pbt.gen import shapes as gs
from pbt.gen import values as gv
from pbt.refsem import interp
from pbt.refsem.values import RefFunction, ref_type, values_equal
from pbt.checks.c03 import ExprGen

ID = 'C01'
LEVEL = 'exploration'
RULE = ('(a) every nesting shape of {if, if-else, if-elif, if-elif-else, while, for, for-with-index} x {no jump, break, continue, both; before/'
        'after the nested construct} to depth 2 (quick) / 3 (thorough), placed at global scope, inside a function and spread over two '
        'functions + global scope, each driven by 5 condition bit patterns through the logging host predicate cc(); (b) seeded structured '
        'programs to nesting depth 5 with up to 3 functions (arity mismatches, "..." parameters, bounded recursion, return inside loops, '
        'functions defined inside blocks), type-directed expressions with effect probes, and 5 host globals drawn from all nine value types. '
        'Oracle: parse_script+execute_script vs. the independent big-step interpreter: outcome kind, return value, exact log/probe event '
        'sequence, final user globals. Non-trivial: nesting depth >= 2, some loop ran >= 2 iterations, and a break/continue was taken or an '
        'elif/else branch ran or a function returned from inside a loop. Distinct by source text + globals.')
RULE += ' Also (after four rounds of seeded changes): identifiers that begin with a keyword or contain non-ASCII letters, a function name defined twice / re-bound to a plain value / defined again in a loop, repeated parameter names, outer loops of 6-13 iterations, `while <literal>:` loops, `async function`, calls to spreadsheet aliases (undefined in scripts); every 4th program is also run without caller-supplied globals (after a run that leaves every generator name behind) and must equal the run from an empty globals object. Programs whose values explode (reference run with a 4 096-element size limit) are regenerated.'
ASSUMPTIONS = [
    'names with the reserved __bareScript prefix, the final value of for-index variables and library functions injected into the globals '
    'are not part of "final global variables"',
    'arrays are not mutated while iterated; arrayLength/arrayGet are not rebound; function names have >= 2 characters',
    'runs that reach indeterminate arithmetic in the reference (x/0, overflow, % of a negative) are discarded (counted)',
    'known finding F7 (continue inside while skips the condition): programs in that class are compared with the defect-aware reference',
]

MAX_STATEMENTS = 200000     # the implementation's budget; the reference stops at REF_FUEL ticks (statements + iterations), at most ~1/5 of the lowered count
REF_FUEL = 10000
GLOBAL_POOL = [None, True, False, 0.0, 2.0, 1, 3.0, -1.5, '', 'q', 'ab', [], [1.0, 'a'], [3.0, 2.0, 1.0], {}, {'k': 1.0},
               datetime.datetime(2020, 1, 2, 3, 4, 5), datetime.date(2021, 6, 7), gv.host_fn_b, gv.REGEXES[0], [[], [0.0]], 1e15, 'null']
TYPE_LETTER = {'null': 'z', 'boolean': 'b', 'number': 'n', 'string': 's', 'datetime': 'd', 'array': 'a', 'object': 'o', 'function': 'f',
               'regex': 'r'}


def known_class(detail):
    return 'F7' if detail.get('while_continue') else None


def make_cc(log, pattern):
    state = {'i': 0}

    def cc(args, options_or_ref):
        log.append(('cc', args[0] if args else None))
        bit = pattern[state['i'] % len(pattern)]
        state['i'] += 1
        return bit
    cc.__name__ = 'cc'
    return cc


def make_probe(log):
    def probe(args, options_or_ref):
        log.append(('probe', args[0] if args else None))
        return args[1] if len(args) > 1 else None
    probe.__name__ = 'probe'
    return probe


def user_globals(g, initial, index_names, is_impl):
    out = {}
    for k, v in g.items():
        if k.startswith('__bareScript') or k in index_names or k in ('probe', 'cc'):
            continue
        if is_impl and k in impl.bs.SCRIPT_FUNCTIONS and v is impl.bs.SCRIPT_FUNCTIONS[k]:
            continue
        out[k] = v
    return out


def same_value(a, b):
    if isinstance(b, (RefFunction, interp.LibraryRef, interp.RefPartial)):
        return callable(a)
    return values_equal(a, b, same_function=lambda x, y: x is y or isinstance(y, (RefFunction, interp.LibraryRef, interp.RefPartial)))


def compare(src, prog, globals0, index_names, pattern, known):
    """Run both sides. Returns (outcome, events) or raises Violation; returns None when the reference is indeterminate."""
    wc = gp.has_while_continue(prog)
    detail = {'kind': 'program', 'source': src, 'globals': enc(globals0), 'pattern': pattern, 'while_continue': wc,
              'index_names': sorted(index_names)}
    # reference first: a program whose values explode (doubling in nested loops) is discarded before the implementation runs it
    rlog = []
    rg = copy.deepcopy(globals0)
    defect = wc and known.get('F7', False)
    ref = interp.Ref(rg, rlog, host={'probe': make_probe(rlog), 'cc': make_cc(rlog, pattern or [True])}, while_continue_defect=defect,
                     fuel=REF_FUEL)
    try:
        expected = ('ok', ref.run_program(prog))
    except interp.Indeterminate as e:
        return None, str(e), wc
    except interp.RefRuntimeError as e:
        expected = ('runtime-error', e.kind)
    # implementation
    ilog = []
    ig = copy.deepcopy(globals0)
    ig['probe'] = make_probe(ilog)
    ig['cc'] = make_cc(ilog, pattern or [True])
    model = impl.parse_valid(src, detail)

    class L(list):
        def append(self, m):       # logFn receives the message text
            list.append(self, ('log', m) if isinstance(m, str) else m)
    sink = L()
    out = impl.run_model(model, ig, None, MAX_STATEMENTS, logFn=lambda m: ilog.append(('log', m)))
    if out.kind == 'ok':
        got = ('ok', out.value)
    elif out.kind == 'runtime-error':
        got = ('runtime-error', 'undefined-function' if 'Undefined function' in out.message else out.message)
    else:
        got = (out.kind, out.message)
    if got[0] != expected[0] or (got[0] != 'ok' and got[1] != expected[1]):
        raise Violation('program ends with %s %r, the source-level reading gives %s %r' % (got[0], _short(got[1]), expected[0], _short(expected[1])),
                        detail, 'outcome' + ('-while-continue' if wc else ''))
    if ilog != rlog:
        n = next((i for i, (a, b) in enumerate(zip(ilog, rlog)) if a != b), min(len(ilog), len(rlog)))
        raise Violation('event %d differs: implementation %r, source-level reading %r (of %d/%d events)' % (
            n, ilog[n] if n < len(ilog) else None, rlog[n] if n < len(rlog) else None, len(ilog), len(rlog)), detail,
            'events' + ('-while-continue' if wc else ''))
    if got[0] == 'ok' and not same_value(got[1], expected[1]):
        raise Violation('return value %r, the source-level reading gives %r' % (_short(got[1]), _short(expected[1])), detail, 'return-value')
    if got[0] == 'ok':
        iu = user_globals(ig, globals0, index_names, True)
        ru = user_globals(rg, globals0, index_names, False)
        if sorted(iu) != sorted(ru):
            raise Violation('final globals have names %r, expected %r' % (sorted(set(iu) ^ set(ru)), []), detail, 'globals-names')
        for k in iu:
            if not same_value(iu[k], ru[k]):
                raise Violation('final global %s = %r, the source-level reading gives %r' % (k, _short(iu[k]), _short(ru[k])), detail, 'globals-value')
    _runs[0] += 1
    if _runs[0] % 4 == 0:
        # a host that supplies no globals: such a run starts from empty globals - exactly like a run that is handed an empty globals object -
        # whatever earlier runs without globals in this process (here: one that sets every name the generator uses) left behind.
        # (probe / cc are defined as script functions so that the program runs to its end)
        if 'noglobals' not in _cache:
            _cache['noglobals'] = impl.bs.parse_script('\n'.join("%s = 'LEFT-BEHIND'" % n for n in LEFTOVER_NAMES) +
                                                       "\nfunction fnLeft(aa):\n    return 'LEFT-BEHIND'\nendfunction\n")
        model2 = impl.parse_valid(NOGLOBALS_PRELUDE + src, detail)
        seen = []
        for how in ('empty-globals-object', 'no-globals-member', 'no-globals-member'):
            log2 = []
            opts2 = {'logFn': lambda m, log2=log2: log2.append(m), 'maxStatements': 3000}
            if how == 'empty-globals-object':
                opts2['globals'] = {}
            else:
                impl.bs.execute_script(_cache['noglobals'], {'logFn': lambda m: None})
            try:
                r2 = ('ok', impl.bs.execute_script(model2, opts2))
            except impl.bs.RuntimeError as e:
                r2 = ('runtime-error', str(e))
            except Exception as e:  # pylint: disable=broad-except
                r2 = ('host-exception', '%s: %s' % (type(e).__name__, e))
            seen.append((r2[0], _short(r2[1]), log2))
        if seen[1] != seen[0] or seen[2] != seen[0]:
            bad = seen[1] if seen[1] != seen[0] else seen[2]
            raise Violation('a run without caller-supplied globals gives %r (%d log lines), the same run from an empty globals object gives %r (%d log lines)' % (
                bad[:2], len(bad[2]), seen[0][:2], len(seen[0][2])), detail, 'no-globals-run')
    return expected, ref.events, wc


_runs = [0]
_cache = {}
LEFTOVER_NAMES = ['x', 'y', 'z', 'w', 'g0', 'g1', 'g2', 'g3', 'garr', 'rr', 'v', 'u'] + ['c%d' % i for i in range(1, 40)] + ['ix%d' % i for i in range(1, 40)] + \
    list(gp.KEYWORD_LIKE_VARIABLES)
NOGLOBALS_PRELUDE = "function probe(tag, value):\n    systemLog('probe ' + tag)\n    return value\nendfunction\nfunction cc(tag):\n    return true\nendfunction\n"


def _short(v):
    return repr(v)[:120]


def gen_globals(rnd):
    g = {'g%d' % i: copy.deepcopy(rnd.choice(GLOBAL_POOL)) for i in range(4)}
    g['garr'] = [[], [1.0], [1.0, 2.0], [1.0, 2.0, 3.0], ['a', None, 2.0, True], [float(i) for i in range(11)]][rnd.randint(0, 5)]
    return g


def gen_program(rnd, size):
    """A generated program. Programs whose values explode (a string or array doubled in nested loops reaches gigabytes within a few
    hundred statements) are regenerated: resource exhaustion of the host is outside the properties."""
    for _ in range(30):
        globals0 = gen_globals(rnd)
        types = {k: TYPE_LETTER[ref_type(v)] for k, v in globals0.items()}
        pg = gp.ProgGen(rnd, ExprGen, max_depth=min(5, 1 + size), max_functions=3, global_types=types)
        prog = pg.program(size)
        if not explodes(prog, globals0):
            break
    src = '\n'.join(gp.print_program(prog)) + '\n'
    return prog, src, globals0, pg


def explodes(prog, globals0):
    saved = interp.SIZE_LIMIT
    interp.SIZE_LIMIT = 4096
    try:
        for wcd in (False, True):
            for pattern in ([True], [True, False, True], [False, True]):
                log = []
                ref = interp.Ref(copy.deepcopy(globals0), log, host={'probe': make_probe(log), 'cc': make_cc(log, pattern)}, while_continue_defect=wcd,
                                 fuel=6000)
                try:
                    ref.run_program(prog)
                except interp.Indeterminate as e:
                    if str(e).startswith('value grows'):
                        return True
                except Exception:  # pylint: disable=broad-except
                    pass
    finally:
        interp.SIZE_LIMIT = saved
    return False


def nontrivial(prog, events):
    return gp.nesting_depth(prog) >= 2 and events['loop-iterations-max'] >= 2 and \
        (events['break'] or events['continue'] or events['elif-or-else'] or events['return-in-loop'])


def plan(tier):
    depth = 2 if tier == 'quick' else 3
    parts = 6 if tier == 'quick' else 16
    specs = [{'kind': 'shapes', 'depth': depth, 'part': i, 'parts': parts} for i in range(parts)]
    k = 10 if tier == 'quick' else 16
    specs += [{'kind': 'programs', 'n': 1200 if tier == 'quick' else 20000, 'k': i} for i in range(k)]
    return specs


def run_shard(ctx, spec):
    known = ctx.known
    if spec['kind'] == 'shapes':
        ix = 0
        for depth in range(1, spec['depth'] + 1):
            for shape in gs.shapes(depth):
                ix += 1
                if ix % spec['parts'] != spec['part']:
                    continue
                for placement in gs.PLACEMENTS:
                    prog, _ = gs.place(lambda nm, shape=shape: gs.build(shape, nm), placement)
                    src = '\n'.join(gp.print_program(prog)) + '\n'
                    for pattern in gs.PATTERNS:
                        try:
                            res = compare(src, prog, {}, set(_index_names(prog)), pattern, known)
                        except Violation as v:
                            if v.detail.get('while_continue') and known.get('F7'):
                                v.bucket += ':beyond-F7'
                            ctx.violation(v)
                            continue
                        if res[0] is None:
                            ctx.discard('reference-indeterminate:' + ('while-continue' if res[2] else 'other'))
                            if res[2] and known.get('F7'):
                                ctx.known_case('F7')
                            continue
                        expected, events, wc = res
                        if wc and known.get('F7'):
                            ctx.known_case('F7')
                        kinds = gs.shape_kinds(shape)
                        ctx.case(digest(src + repr(pattern)), depth >= 2 and nontrivial(prog, events) or (depth >= 2 and events['loop-iterations-max'] >= 2 and len(kinds) >= 2),
                                 ['shape-depth%d' % depth, 'placement:' + placement] + ['taken:' + k for k in ('break', 'continue', 'elif-or-else', 'return-in-loop') if events[k]],
                                 {'source': src, 'pattern': pattern})
        ctx.exhaustive['nesting shapes to depth %d x 3 placements x %d condition patterns' % (spec['depth'], len(gs.PATTERNS))] = True
        return

    def prop(seed, size):
        rnd = random.Random(seed)
        prog, src, globals0, pg = gen_program(rnd, size)
        try:
            res = compare(src, prog, globals0, pg.index_names, None, known)
        except Violation as v:
            v.detail.update(seed=seed, size=size)
            if v.detail.get('while_continue') and known.get('F7'):
                v.bucket += ':beyond-F7'
            raise
        if res[0] is None:
            ctx.discard('reference-indeterminate:' + ('fuel/while-continue' if res[2] else res[1]))
            return
        expected, events, wc = res
        if wc and known.get('F7'):
            ctx.known_case('F7')
        d = gp.nesting_depth(prog)
        ctx.case(digest([src, enc(globals0)]), nontrivial(prog, events),
                 ['program', 'depth=%d' % min(d, 6), 'outcome:' + expected[0], 'functions=%d' % len(pg.funcs), 'while-continue' if wc else 'no-while-continue',
                  'iterations>=2' if events['loop-iterations-max'] >= 2 else 'iterations<2'] +
                 ['taken:' + k for k in ('break', 'continue', 'elif-or-else', 'return-in-loop', 'call-arity-mismatch') if events[k]],
                 {'source': src, 'globals': globals0})
    run_hypothesis(ctx, prop, [st.integers(0, 2 ** 32 - 1), st.integers(1, 5)], spec['n'], salt=spec['k'], minimise=lambda v: minimise(v, known))


def _index_names(prog):
    out = []
    for s in prog:
        if s[0] == 'for':
            if s[2]:
                out.append(s[2])
            out += _index_names(s[4])
        elif s[0] == 'if':
            for _, b in s[1]:
                out += _index_names(b)
            if s[2] is not None:
                out += _index_names(s[2])
        elif s[0] == 'while':
            out += _index_names(s[2])
        elif s[0] == 'func':
            out += _index_names(s[4])
    return out


# ---- minimisation: delete statements / unwrap blocks while the same bucket still fails ------------------------------

def _variants(stmts):
    """Smaller statement lists: drop one statement, or replace a compound statement by one of its bodies."""
    for i, s in enumerate(stmts):
        yield stmts[:i] + stmts[i + 1:]
        k = s[0]
        if k == 'if':
            for j, (c, b) in enumerate(s[1]):
                yield stmts[:i] + b + stmts[i + 1:]
                for sub in _variants(b):
                    yield stmts[:i] + [('if', s[1][:j] + [(c, sub)] + s[1][j + 1:], s[2])] + stmts[i + 1:]
                if len(s[1]) > 1:
                    yield stmts[:i] + [('if', s[1][:j] + s[1][j + 1:], s[2])] + stmts[i + 1:]
            if s[2] is not None:
                yield stmts[:i] + [('if', s[1], None)] + stmts[i + 1:]
                for sub in _variants(s[2]):
                    yield stmts[:i] + [('if', s[1], sub)] + stmts[i + 1:]
        elif k == 'while':
            for sub in _variants(s[2]):
                yield stmts[:i] + [('while', s[1], sub)] + stmts[i + 1:]
        elif k == 'for':
            for sub in _variants(s[4]):
                yield stmts[:i] + [('for', s[1], s[2], s[3], sub)] + stmts[i + 1:]
        elif k == 'func':
            for sub in _variants(s[4]):
                yield stmts[:i] + [('func', s[1], s[2], s[3], sub)] + stmts[i + 1:]


def _valid(stmts, loops=0):
    for s in stmts:
        k = s[0]
        if k in ('break', 'continue') and not loops:
            return False
        if k == 'if':
            if not all(_valid(b, loops) for _, b in s[1]) or (s[2] is not None and not _valid(s[2], loops)):
                return False
        elif k == 'while' and not _valid(s[2], loops + 1):
            return False
        elif k == 'for' and not _valid(s[4], loops + 1):
            return False
        elif k == 'func' and not _valid(s[4], 0):
            return False
    return True


def minimise(v, known):
    if 'seed' not in v.detail:
        return None
    rnd = random.Random(v.detail['seed'])
    prog, src, globals0, pg = gen_program(rnd, v.detail['size'])
    names = set(pg.index_names)

    def failure(p):
        if not _valid(p):
            return None
        s = '\n'.join(gp.print_program(p)) + '\n'
        try:
            compare(s, p, globals0, names, None, known)
        except Violation as e:
            return e
        except RecursionError:
            return None
        return None
    best = failure(prog)
    if best is None:
        return None
    bucket = best.bucket
    budget = 1500
    improved = True
    while improved and budget > 0:
        improved = False
        for cand in _variants(prog):
            budget -= 1
            if budget <= 0:
                break
            if not cand:
                continue
            e = failure(cand)
            if e is not None and e.bucket == bucket:
                prog, best, improved = cand, e, True
                break
    # drop unused globals
    return best


def replay(detail):
    """Replay from source text: the AST the reference needs is rebuilt by an independent structural reader of the
    generated source (the generator's own printer format), not by the implementation's parser."""
    from pbt.gen.reader import read_program
    prog = read_program(detail['source'])
    fns = {'host_fn_a': gv.host_fn_a, 'host_fn_b': gv.host_fn_b}
    globals0 = dec(detail['globals'], fns)
    known = {'F7': bool(detail.get('assume_F7'))}
    compare(detail['source'], prog, globals0, set(detail.get('index_names', [])), detail.get('pattern'), known)
