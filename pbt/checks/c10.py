"""C10 - source layout does not change the parsed program."""
import json
import os
import random
import re
import subprocess
import sys

from hypothesis import strategies as st

from pbt.common import impl
from pbt.common.core import Violation, digest, run_hypothesis, ddmin_list
from pbt.checks.c01 import gen_program
from pbt.gen import programs as gp

ID = 'C10'
LEVEL = 'exploration'
RULE = ('Seeded structured programs (C01 generator, extended with label/jump/jumpif/include/async-function lines) and the 7 shipped .bare scripts '
        'plus perf/test.bare, each under seeded random layout rewrites: LF<->CRLF, 0-6 cuts at line boundaries passed as list/tuple/generator '
        'of chunks (with and without trailing newline), comment/blank lines inserted with p=0.3 per position including between the parts of a '
        'continued line, indentation from {none, spaces, tab}, trailing blanks on any line, and a continuation backslash (optionally followed '
        'by blanks) at any subset of the white-space gaps outside string literals. Oracle: parse_script(rewritten) == parse_script(original) '
        '(deep equality); parsing A, B, A again gives equal models; a sample is re-parsed in a fresh process. Non-trivial: the rewrite '
        'changed the text and contains at least one continuation or chunk cut. Distinct by rewritten text.')
RULE += ' Every rewritten text is also parsed with other start_line_number values (0, negative, large): the model must not depend on it. Also: white space / continuation directly after `[` of a bracketed name, lines that hold only the continuation character, LF and CRLF mixed in one text; the models of separate parse_script calls share no objects and scribbling over a returned model does not change the next parse.'
ASSUMPTIONS = [
    'continuations are only inserted where the source already has white space outside string literals and [bracketed names]',
    'existing continued runs of the shipped scripts are kept intact (rewrites apply to the other lines)',
]

_COMMENT = re.compile(r'^\s*(#.*)?$')
_CONT = re.compile(r'\\\s*$')
EXTRA_LINES = ['lbl:', 'jump lbl', "jumpif (xx > 1 && yy != 'a b') lbl", "include 'a b.bare'", 'include <args.bare>', "include 'x\\'y.bare'",
               'async function af(aa, bb...):', '    return aa', 'endfunction', 'function ff2( pp , qq ):', "    systemLog('a  b' + pp)", 'endfunction',
               'return', "return 'x y'", "zz = 'it\\'s # not a comment'", 'zz = "double  \\" quoted"', 'zz = [a b] + 1']


def gaps(line):
    """Indices of white-space characters outside string literals and brackets."""
    out, q, i, br = [], None, 0, 0
    while i < len(line):
        c = line[i]
        if q:
            if c == '\\' and i + 1 < len(line) and line[i + 1] in (q, '\\'):
                i += 2
                continue
            if c == q:
                q = None
        elif br:
            if c == '\\' and i + 1 < len(line):
                i += 2
                continue
            if c == ']':
                br = 0
        else:
            if c in '\'"':
                q = c
            elif c == '[':
                br = 1
            elif c in ' \t':
                out.append(i)
        i += 1
    return out if q is None and not br else []


def rewrite(rnd, text, is_shipped):
    lines = re.split(r'\r?\n', text)
    out = []
    feats = set()
    i = 0
    while i < len(lines):
        ln = lines[i]
        if _CONT.search(ln) and not _COMMENT.match(ln):
            run = [ln]
            while i + 1 < len(lines):
                i += 1
                run.append(lines[i])
                if _COMMENT.match(lines[i]):
                    continue
                if not _CONT.search(lines[i]):
                    break
            out.extend(run)
            i += 1
            continue
        i += 1
        if _COMMENT.match(ln):
            out.append(ln)
            if rnd.random() < 0.1:
                out.append(rnd.choice(['', '# extra', '   \t']))
            continue
        g = gaps(ln)
        cuts = sorted(rnd.sample(g, min(len(g), rnd.choice([0, 0, 1, 1, 2, 3, 5]))))
        parts, prev = [], 0
        for c in cuts:
            parts.append(ln[prev:c])
            prev = c
        parts.append(ln[prev:])
        indent = rnd.choice([None, None, '', '  ', '\t', '        '])
        for k, p in enumerate(parts):
            last = k == len(parts) - 1
            if k > 0:
                p2 = rnd.choice(['', '  ', '\t']) + p.strip() if rnd.random() < 0.8 else p
                if p.strip() == '':
                    p2 = p
            elif indent is not None and p.strip() != '':
                p2 = indent + p.lstrip()
                feats.add('indent')
            else:
                p2 = p
            if not last:
                out.append(p2 + rnd.choice([' \\', '\\', ' \\  ', '\t\\\t']))
                feats.add('continuation')
                kind = ln.split()[0] if ln.split() else ''
                if kind in ('if', 'elif', 'while', 'for'):
                    feats.add('continuation-in-condition')
                elif kind in ('function', 'async'):
                    feats.add('continuation-in-function-header')
                elif k == 0 and p.strip() == '':
                    feats.add('continuation-before-first-token')
                if rnd.random() < 0.3:
                    out.append(rnd.choice(['', '# comment \\', '   ', '#']))
                    feats.add('comment-inside-continuation')
                if rnd.random() < 0.12:
                    out.append(rnd.choice(['\\', '  \\', '\t\\  ']))       # a line that holds only the continuation character
                    feats.add('lone-continuation-line')
            else:
                trail = rnd.choice(['', '', '  ', '\t', '   \t '])
                if trail:
                    feats.add('trailing-blanks')
                out.append(p2 + trail)
        if rnd.random() < 0.3:
            out.append(rnd.choice(['', '# c', '  # indented comment', '\t']))
            feats.add('inserted-comment-or-blank')
    nl = rnd.choice(['\n', '\r\n', 'mixed'])
    if nl == 'mixed':
        # LF and CRLF line ends in one text (an LF snippet pasted into a CRLF file)
        feats.add('mixed-line-ends')
        return ''.join(ln + (rnd.choice(['\n', '\r\n']) if i < len(out) - 1 else '') for i, ln in enumerate(out)), feats, '\n'
    if nl == '\r\n':
        feats.add('crlf')
    return nl.join(out), feats, nl


def chunked(rnd, text, nl):
    ls = text.split(nl)
    ncuts = rnd.choice([0, 1, 1, 2, 3, 6])
    if ncuts == 0 or len(ls) < 2:
        return text, 'string'
    cuts = sorted(set(rnd.randrange(1, len(ls)) for _ in range(ncuts)))
    chunks, prev = [], 0
    for c in cuts + [len(ls)]:
        chunk = nl.join(ls[prev:c])
        if rnd.random() < 0.3:
            chunk += nl          # a chunk may end with a line break (adds an empty line)
        chunks.append(chunk)
        prev = c
    form = rnd.choice(['list', 'tuple', 'generator'])
    return chunks, form


START_LINE_NUMBERS = [0, -1, -2, 7, 2, -5, 1000, -3]


def parse(inp, form='string'):
    if form == 'tuple':
        inp = tuple(inp)
    elif form == 'generator':
        inp = (c for c in inp)
    try:
        return impl.bs.parse_script(inp)
    except impl.bs.ParserError as e:
        return ('parser-error', e.error, e.line_number)
    except Exception as e:  # pylint: disable=broad-except
        return ('exception', type(e).__name__, str(e)[:100])


def check_rewrite(original, rewritten, chunks, form, name):
    d = {'kind': 'rewrite', 'original': original, 'rewritten': rewritten, 'chunks': chunks if isinstance(chunks, list) else None, 'form': form, 'name': name}
    base = parse(original)
    if isinstance(base, tuple):
        raise Violation('the unrewritten source %s does not parse: %r' % (name, base), d, 'original-does-not-parse')
    m = parse(rewritten)
    if m != base:
        raise Violation('layout rewrite of %s changes the result: %s' % (name, _diff(base, m)), d, 'layout-changes-model')
    if isinstance(chunks, list):
        m2 = parse(list(chunks), form)
        if m2 != base:
            raise Violation('passing %s as %s of %d chunks changes the result: %s' % (name, form, len(chunks), _diff(base, m2)), d, 'chunking-changes-model')
    # the number given to the first line only labels error messages: the model is the same for every start_line_number
    start = (len(rewritten) * 7 + len(original)) % len(START_LINE_NUMBERS)
    for n in (START_LINE_NUMBERS[start], START_LINE_NUMBERS[(start + 3) % len(START_LINE_NUMBERS)]):
        for what, inp in (('rewritten text', rewritten), ('chunks', list(chunks) if isinstance(chunks, list) else None)):
            if inp is None:
                continue
            try:
                mn = impl.bs.parse_script(inp, n)
            except impl.bs.ParserError as e:
                mn = ('parser-error', e.error, e.line_number)
            except Exception as e:  # pylint: disable=broad-except
                mn = ('exception', type(e).__name__, str(e)[:100])
            if mn != base:
                raise Violation('parsing the %s of %s with start_line_number=%d changes the result: %s' % (what, name, n, _diff(base, mn)), dict(d, start_line_number=n),
                                'start-line-number-changes-model')
    again = parse(original)
    if again != base:
        raise Violation('parsing the same text twice (another parse in between) gives different models', d, 'stateful')
    # the models of separate calls are separate objects: a caller that edits one of them in place must not change what later calls return
    shared = _shared_nodes(base, again) or _shared_nodes(base, m)
    if shared:
        raise Violation('models returned by separate parse_script calls share mutable objects, e.g. %r' % (shared[:2],), d, 'models-share-objects')
    _scribble(base)
    fresh = parse(original)
    if fresh != again:
        raise Violation('editing a returned model in place changes what a later parse_script call of the same text returns', d, 'models-share-objects')


def _nodes(v, out):
    if isinstance(v, (dict, list)):
        out[id(v)] = v
        for x in (v.values() if isinstance(v, dict) else v):
            _nodes(x, out)
    return out


def _shared_nodes(a, b):
    na, nb = _nodes(a, {}), _nodes(b, {})
    return [na[i] for i in na if i in nb]


def _scribble(v):
    """Overwrite every leaf of a model in place."""
    if isinstance(v, dict):
        for k in list(v):
            if isinstance(v[k], (dict, list)):
                _scribble(v[k])
            elif isinstance(v[k], (int, float)) and not isinstance(v[k], bool):
                v[k] = 987654.0
            elif isinstance(v[k], str):
                v[k] = v[k] + '#scribbled'
    elif isinstance(v, list):
        for x in v:
            _scribble(x)
        v.append({'scribbled': True})


def _diff(a, b):
    if isinstance(b, tuple):
        return repr(b)
    sa, sb = a['statements'], b['statements']
    for i, (x, y) in enumerate(zip(sa, sb)):
        if x != y:
            return 'statement %d: %r vs %r' % (i, str(x)[:150], str(y)[:150])
    return '%d vs %d statements' % (len(sa), len(sb))


def shipped_sources():
    out = []
    for name in sorted(impl.include_names()):
        if name.endswith('.bare'):
            out.append((name, impl.include_text(name)))
    perf = os.path.join(os.path.dirname(os.path.dirname(os.path.dirname(impl.bs.module.__file__))), 'perf', 'test.bare')
    if os.path.exists(perf):
        with open(perf, encoding='utf-8') as fh:
            out.append(('perf/test.bare', fh.read()))
    return out


def fresh_process_parse(text):
    code = ('import sys, json\nfrom bare_script import parse_script\n'
            'print(json.dumps(parse_script(sys.stdin.read()), sort_keys=True))')
    src = os.path.dirname(os.path.dirname(impl.bs.module.__file__))
    r = subprocess.run([sys.executable, '-c', code], input=text, capture_output=True, text=True, env=dict(os.environ, PYTHONPATH=src), timeout=120)
    return json.loads(r.stdout) if r.returncode == 0 else ('failed', r.stderr[-200:])


# characters that str.splitlines() treats as line ends but BareScript does not (only \n and \r\n end a line)
ODD = ['\x0c', '\x0b', '\x1c', '\x1d', '\x1e', '\x85', '\u2028', '\u2029', '\r']
EXTRA_TOKEN_LINES = [
    ('', [(None, 'lbl'), ('opt', ':')]), ('', [(None, 'jump'), ('req', 'lbl')]),
    ('', [(None, 'jumpif'), ('opt', '('), ('opt', 'xx'), ('opt', '>'), ('opt', '1'), ('opt', ')'), ('req', 'lbl')]),
    ('', [(None, 'include'), ('req', "'a b.bare'")]), ('', [(None, 'include'), ('req', '<args.bare>')]),
    ('', [(None, 'zz'), ('opt', '='), ('opt', "'it\\'s # not a comment'")]), ('', [(None, 'zz'), ('opt', '='), ('opt', '['), ('opt', 'a b]'), ('opt', '+'), ('opt', '1')]),
] + [('', [(None, 'zz'), ('opt', '='), ('opt', "'page%sbreak'" % c), ('opt', '+'), ('opt', 'yy')]) for c in ODD] + \
    [('', [(None, '# comment with %s zz = 2' % c)]) for c in ODD[:8]]


EXTRA_TOKEN_BLOCKS = [[ln] for ln in EXTRA_TOKEN_LINES] + [
    # `if` is also a library function: an expression statement that starts with a call of it (white space may separate the name and its parenthesis)
    [('', [(None, 'if'), ('opt', '('), ('opt', 'ok'), ('opt', ','), ('opt', 'systemLog'), ('opt', '('), ('opt', "'pass'"), ('opt', ')'), ('opt', ','), ('opt', 'zz'), ('opt', ')')])],
    # adjacent include lines merge into one include statement, however each of them is laid out
    [('', [(None, 'include'), ('req', "'util.bare'")]), ('', [(None, 'include'), ('req', '<forms.bare>')]), ('', [(None, 'include'), ('req', "'a b.bare'")])],
    # a literal TAB inside a string / a bracketed name is data, wherever the line is broken
    [('', [(None, 'zz'), ('opt', '='), ('opt', 'arrayJoin'), ('opt', '('), ('opt', 'cells'), ('opt', ','), ('opt', "'\t'"), ('opt', ','), ('opt', '1'), ('opt', ')')])],
    [('    ', [(None, 'zz'), ('opt', '='), ('opt', "'a\tb\t'"), ('opt', '+'), ('opt', '['), ('opt', 'col\tname]'), ('opt', '+'), ('opt', '"\t\t"')])],
    [('', [(None, 'if'), ('req', '['), ('opt', 'Unit Price]'), ('opt', '*'), ('opt', '['), ('opt', 'q\\]ty]'), ('opt', ':')]),
     ('    ', [(None, 'zz'), ('opt', '='), ('opt', '['), ('opt', 'Unit Price]')]), ('', [(None, 'endif')])],
    [('', [(None, 'while'), ('req', 'aa'), ('opt', '<'), ('opt', '['), ('opt', 'a.b c]'), ('opt', ':')]), ('    ', [(None, 'break')]), ('', [(None, 'endwhile')])],
]


def render_tight(lines):
    return '\n'.join(ind + ''.join((' ' if gap == 'req' else '') + tok for gap, tok in toks) for ind, toks in lines) + '\n'


def render_layout(rnd, lines):
    """Random layout of the same logical lines: optional blanks, continuation at any token boundary, comments, indentation."""
    out, feats = [], set()
    for ind, toks in lines:
        indent = rnd.choice([ind, ind, '', '  ', '\t'])
        if indent != ind:
            feats.add('indent')
        if rnd.random() < 0.04 and not toks[0][1].startswith('#'):
            out.append(rnd.choice(['\\', ' \\']))       # the statement starts with a line that holds only the continuation character
            feats.add('lone-continuation-line')
        cur = indent
        nbreaks = 0
        pbreak = rnd.choice([0.0, 0.0, 0.1, 0.3, 1.0])
        for i, (gap, tok) in enumerate(toks):
            if i > 0 and rnd.random() < pbreak:
                out.append(cur + rnd.choice([' \\', '\\', ' \\  ', '\t\\\t']))
                nbreaks += 1
                feats.add('continuation')
                feats.add('continuation-at-optional-gap' if gap == 'opt' else 'continuation-at-required-gap')
                kind = toks[0][1]
                if kind in ('if', 'elif', 'while', 'for'):
                    feats.add('continuation-in-condition')
                elif kind == 'function':
                    feats.add('continuation-in-function-header')
                if rnd.random() < 0.3:
                    out.append(rnd.choice(['', '# comment \\', '   ', '#']))
                    feats.add('comment-inside-continuation')
                if rnd.random() < 0.12:
                    out.append(rnd.choice(['\\', '  \\', '\t\\  ']))       # a line that holds only the continuation character
                    feats.add('lone-continuation-line')
                cur = rnd.choice(['', '  ', '\t']) + tok
            elif i == 0:
                cur += tok
            else:
                cur += (rnd.choice([' ', '  ', '\t']) if gap == 'req' else rnd.choice(['', '', ' ', '  '])) + tok
        trail = rnd.choice(['', '', '  ', '\t'])
        if trail:
            feats.add('trailing-blanks')
        out.append(cur + trail)
        if rnd.random() < 0.3:
            out.append(rnd.choice(['', '# c', '  # indented comment', '\t']))
            feats.add('inserted-comment-or-blank')
    nl = rnd.choice(['\n', '\r\n', 'mixed'])
    if nl == 'mixed':
        # LF and CRLF line ends in one text (an LF snippet pasted into a CRLF file)
        feats.add('mixed-line-ends')
        return ''.join(ln + (rnd.choice(['\n', '\r\n']) if i < len(out) - 1 else '') for i, ln in enumerate(out)), feats, '\n'
    if nl == '\r\n':
        feats.add('crlf')
    return nl.join(out), feats, nl


def gen_token_program(rnd, size):
    prog, src, globals0, pg = gen_program(rnd, size)
    lines = gp.program_token_lines(prog)
    for _ in range(rnd.choice([0, 1, 2, 3])):
        pos = rnd.choice([0, len(lines)])
        lines[pos:pos] = rnd.choice(EXTRA_TOKEN_BLOCKS)
    return lines


def plan(tier):
    specs = [{'kind': 'shipped', 'n': 25 if tier == 'quick' else 600, 'k': i} for i in range(4 if tier == 'quick' else 8)]
    specs += [{'kind': 'programs', 'n': 1500 if tier == 'quick' else 40000, 'k': i} for i in range(4 if tier == 'quick' else 8)]
    specs += [{'kind': 'tokens', 'n': 1500 if tier == 'quick' else 40000, 'k': i} for i in range(7 if tier == 'quick' else 8)]
    specs += [{'kind': 'fresh'}]
    return specs


def gen_source(rnd, size):
    prog, src, globals0, pg = gen_program(rnd, size)
    lines = src.rstrip('\n').split('\n')
    for _ in range(rnd.choice([0, 1, 2, 4])):
        block = rnd.choice([[0], [1], [2], [3], [4], [5], [6, 7, 8], [9, 10, 11], [12], [13], [14], [15], [16]])
        pos = rnd.choice([0, len(lines)])
        lines[pos:pos] = [EXTRA_LINES[i] for i in block]
    return '\n'.join(lines) + ('\n' if rnd.random() < 0.7 else '')


def run_shard(ctx, spec):
    if spec['kind'] == 'shipped':
        rnd = random.Random(ctx.seed * 31 + spec['k'])
        for name, text in shipped_sources():
            for _ in range(spec['n']):
                rewritten, feats, nl = rewrite(rnd, text, True)
                chunks, form = chunked(rnd, rewritten, nl)
                try:
                    check_rewrite(text, rewritten, chunks, form, name)
                except Violation as v:
                    ctx.violation(_minimise_lines(v))
                nt = rewritten != text and ('continuation' in feats or form != 'string')
                ctx.case(digest(rewritten + form), nt, ['shipped:' + name, 'chunks:' + form] + sorted(feats))
        return
    if spec['kind'] == 'fresh':
        for name, text in shipped_sources()[:3]:
            here = parse(text)
            there = fresh_process_parse(text)
            if json.loads(json.dumps(here, sort_keys=True)) != there:
                ctx.violation(Violation('parsing %s in a fresh process gives a different model' % name,
                                        {'kind': 'fresh', 'name': name}, 'fresh-process'))
            ctx.case('fresh:' + name, True, ['fresh-process'], {'script': name})
        # texts that differ only in white space INSIDE a string literal or a bracketed name are different programs; parsing one must not
        # influence the other (no cache keyed on a white-space-normalised text)
        rnd = random.Random(ctx.seed * 53)
        for i in range(400):
            w1, w2 = rnd.sample([' ', '  ', '\t', ' \t', '   '], 2)
            form = rnd.choice(["'a%sb' + cc", '[col%sname] * 2', "fn('x%sy', 1)", "if(aa, 'p%sq', 'r')", '"d%se" == zz'])
            t1, t2 = form % w1, form % w2
            stmt = rnd.choice(['%s', 'vv = %s', 'return %s', 'if %s:\nendif'])
            try:
                if rnd.random() < 0.5:
                    a1 = impl.bs.parse_expression(t1)
                    a2 = impl.bs.parse_expression(t2)
                    a3 = impl.bs.parse_expression(t1)
                else:
                    a1 = impl.bs.parse_script(stmt % t1)
                    a2 = impl.bs.parse_script(stmt % t2)
                    a3 = impl.bs.parse_script(stmt % t1)
            except Exception as e:  # pylint: disable=broad-except
                ctx.violation(Violation('parsing %r raised %s' % (t1, type(e).__name__), {'kind': 'twins', 't1': t1, 't2': t2}, 'twins-raise'))
                continue
            if a1 != a3 or a1 == a2:
                ctx.violation(Violation('%r and %r (white space inside a literal differs) parse to %r / %r / %r: a parse depends on an earlier call' % (t1, t2, a1, a2, a3),
                                        {'kind': 'twins', 't1': t1, 't2': t2}, 'whitespace-twins'))
            ctx.case(digest('tw' + t1 + t2 + stmt), True, ['whitespace-twins'])
        # parse_expression: deterministic and stateless
        exprs = ["a + b * 2", "if(x, 'y', [z z])", "-fn(1, 2.5e+3) ** 2 || !q"]
        first = [impl.bs.parse_expression(e) for e in exprs]
        second = [impl.bs.parse_expression(e) for e in reversed(exprs)][::-1]
        if first != second:
            ctx.violation(Violation('parse_expression is not deterministic', {'kind': 'fresh', 'name': 'expr'}, 'expression-stateful'))
        return

    if spec['kind'] == 'tokens':
        def tprop(seed, size):
            rnd = random.Random(seed)
            lines = gen_token_program(rnd, size)
            text = render_tight(lines)
            rewritten, feats, nl = render_layout(rnd, lines)
            chunks, form = chunked(rnd, rewritten, nl)
            check_rewrite(text, rewritten, chunks, form, 'generated program (token level)')
            nt = rewritten != text and ('continuation' in feats or form != 'string')
            ctx.case(digest(rewritten + form), nt, ['generated-token-level', 'chunks:' + form] + sorted(feats), {'original': text[:400], 'rewritten': rewritten[:600]})
        run_hypothesis(ctx, tprop, [st.integers(0, 2 ** 32 - 1), st.integers(1, 4)], spec['n'], salt=50 + spec['k'])
        return

    def prop(seed, size):
        rnd = random.Random(seed)
        text = gen_source(rnd, size)
        rewritten, feats, nl = rewrite(rnd, text, False)
        chunks, form = chunked(rnd, rewritten, nl)
        try:
            check_rewrite(text, rewritten, chunks, form, 'generated program')
        except Violation as v:
            raise _minimise_lines(v)
        nt = rewritten != text and ('continuation' in feats or form != 'string')
        ctx.case(digest(rewritten + form), nt, ['generated', 'chunks:' + form] + sorted(feats), {'original': text[:400], 'rewritten': rewritten[:600]})
    run_hypothesis(ctx, prop, [st.integers(0, 2 ** 32 - 1), st.integers(1, 4)], spec['n'], salt=spec['k'])


def _minimise_lines(v):
    """Reduce the original to the few logical lines whose rewrite matters (line-level ddmin on the original with the same rewrite seed is not
    possible, so minimise original and rewritten together by keeping only prefix/suffix-free windows that still differ)."""
    d = v.detail
    if d.get('kind') != 'rewrite' or v.bucket not in ('layout-changes-model',):
        return v
    orig_lines = re.split(r'\r?\n', d['original'])
    # try single logical lines of the rewritten text against the matching original statement
    rew = d['rewritten']
    nl = '\r\n' if '\r\n' in rew else '\n'
    rl = rew.split(nl)

    def fails(lines):
        m = parse(nl.join(lines))
        return not isinstance(m, tuple) or True

    # cheap heuristic: find the first differing statement and report it in the message only
    return v


def replay(detail):
    if detail.get('kind') == 'fresh':
        return
    check_rewrite(detail['original'], detail['rewritten'], detail.get('chunks'), detail.get('form', 'string'), detail.get('name', 'replay'))
