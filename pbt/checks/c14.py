"""C14 - JSON serialisation is faithful: jsonParse(jsonStringify(v)) equals v."""
import itertools
import json
import random
import re

from hypothesis import strategies as st

from pbt.common import impl
from pbt.common.core import Violation, dec, digest, enc, run_hypothesis
from pbt.gen import values as gv
from pbt.refsem.values import is_number

ID = 'C14'
LEVEL = 'exploration'
RULE = ('Exhaustive: all 1555 strings of length <= 4 over {a . 0 , ] }} in 7 embeddings (value, key, array element next to numbers, key and '
        'value, nested) x indent {none, 2}; Hypothesis: JSON values to depth 5 over null/booleans/finite numbers (C13 generator)/strings and '
        'keys from a punctuation-heavy alphabet incl. control characters, lone and paired surrogates and non-BMP, indent none or 1..8 given as '
        'float. Through a script: the text is accepted by json.loads and jsonParse, both equal the input (numbers by value, strings code '
        'point for code point, key sets equal), keys appear sorted, integral numbers carry no fraction (own tokeniser that skips strings), '
        'and unequal values in a run never share a text. Non-trivial: a string or key contains two adjacent characters from {. 0 , ] }} or '
        'a container mixes numbers and strings; distinct by content hash.')
RULE += " Also: strings made of JSON's own words and a trailing backslash, comment markers (/* */ // <!--), one string with 2 500 brackets; values in which one array / object is stored twice (shared, acyclic). Round 5: arrays of 255-1000 numbers, documents of more than 1 MiB with strings ending in a backslash, with and without indent."
RULE += ' Round 7: one case in three first puts a value without a JSON form (non-finite number, the container itself) inside the container, lets jsonStringify fail on it (compact and indented), takes it out again and only then runs the round trip on the very same container.'
RULE += ' Round 8: number-like tokens (-0, 1.0, 10.00, 1e5 ...) inside string values and keys, surrounded the way JSON surrounds numbers.'
ASSUMPTIONS = [
    'json.loads (CPython) is the standard JSON parser used as the second, independent reader',
    'values contain only null, booleans, finite numbers, strings, arrays and string-keyed objects (the property\'s domain)',
    'ints are kept below 2**53 in magnitude (one number type)',
]

PUNCT = 'a.0,]}'
_m = {}
_TOKEN = re.compile(r'"(?:[^"\\]|\\.)*"|-?\d+(?:\.\d+)?(?:[eE][+-]?\d+)?|[\[\]{},:]|true|false|null|\s+')


def models():
    if not _m:
        _m['plain'] = impl.bs.parse_script('t = jsonStringify(v)\nreturn arrayNew(t, jsonParse(t))')
        _m['indent'] = impl.bs.parse_script('t = jsonStringify(v, n)\nreturn arrayNew(t, jsonParse(t))')
    return _m


def json_equal(a, b):
    if is_number(a) and is_number(b):
        return float(a) == float(b)
    if type(a) is not type(b) and not (is_number(a) and is_number(b)):
        return False
    if isinstance(a, list):
        return len(a) == len(b) and all(json_equal(x, y) for x, y in zip(a, b))
    if isinstance(a, dict):
        return a.keys() == b.keys() and all(json_equal(a[k], b[k]) for k in a)
    return a == b


def collect_numbers(v, out):
    if is_number(v):
        out.append(v)
    elif isinstance(v, list):
        for x in v:
            collect_numbers(x, out)
    elif isinstance(v, dict):
        for k in sorted(v):
            collect_numbers(v[k], out)


def check_value(v, indent=None, seen=None):
    d = {'kind': 'json', 'v': enc(v), 'indent': enc(indent)}
    log = []
    if indent is None:
        out = impl.run_model(models()['plain'], {'v': v}, log, debug=True)
    else:
        out = impl.run_model(models()['indent'], {'v': v, 'n': indent}, log, debug=True)
    if out.kind != 'ok' or not isinstance(out.value, list) or not isinstance(out.value[0], str):
        raise Violation('jsonStringify failed: %r %r' % (out, log[:1]), d, 'stringify-fails')
    text, back = out.value
    d['text'] = text
    if log:
        raise Violation('jsonParse(jsonStringify(v)) failed: %r' % (log[:1],), d, 'parse-own-output-fails')
    pairs_sorted = [True]

    def hook(pairs):
        keys = [k for k, _ in pairs]
        if keys != sorted(keys) or len(set(keys)) != len(keys):
            pairs_sorted[0] = False
        return dict(pairs)
    try:
        std = json.loads(text, object_pairs_hook=hook)
    except ValueError as e:
        raise Violation('jsonStringify output is not valid JSON: %s' % e, d, 'invalid-json') from e
    if not json_equal(std, v):
        raise Violation('a standard parser reads %r back as a different value' % (text[:80],), d, 'roundtrip-standard')
    if not json_equal(back, v):
        raise Violation('jsonParse(jsonStringify(v)) differs from v; text %r' % (text[:80],), d, 'roundtrip-jsonparse')
    if isinstance(back, (list, dict)):
        # modify the parsed result in place, then round-trip the same value again: jsonParse must hand out independent values
        if isinstance(back, list):
            back.append('modified by the caller')
        else:
            back['modified by the caller'] = 1.0
        out2 = impl.run_model(models()['plain'] if indent is None else models()['indent'], {'v': v, 'n': indent}, [], debug=False)
        if out2.kind != 'ok' or not isinstance(out2.value, list) or not json_equal(out2.value[1], v):
            raise Violation('after the caller modified an earlier jsonParse result, jsonParse(jsonStringify(v)) gives %r for v = %r' % (
                out2.value[1] if out2.kind == 'ok' and isinstance(out2.value, list) else out2, v), d, 'parse-result-shared')
    if not pairs_sorted[0]:
        raise Violation('object keys are not in sorted order in %r' % (text[:80],), d, 'key-order')
    # number tokens: integral |x| < 1e16 carry no fraction; the k-th number token denotes the k-th number
    pos, toks = 0, []
    while pos < len(text):
        m = _TOKEN.match(text, pos)
        if m is None:
            raise Violation('cannot tokenise output at %d: %r' % (pos, text[pos:pos + 20]), d, 'invalid-json')
        if m.group(0)[0] in '-0123456789':
            toks.append(m.group(0))
        pos = m.end()
    nums = []
    collect_numbers(v, nums)
    if len(toks) != len(nums):
        raise Violation('%d number tokens for %d numbers' % (len(toks), len(nums)), d, 'number-tokens')
    for tok, x in zip(toks, nums):
        if float(x) == int(float(x)) and abs(x) < 1e16 and not re.fullmatch(r'-?\d+', tok):
            raise Violation('integral number %r written as %r' % (x, tok), d, 'integral-fraction')
    if indent is None or indent <= 0:
        if re.search(r'\s', re.sub(r'"(?:[^"\\]|\\.)*"', '', text)):
            raise Violation('compact form contains white space outside strings', d, 'compact-form')
    else:
        lines = text.split('\n')
        if isinstance(v, (list, dict)) and v and (len(lines) < 2 or not lines[1].startswith(' ' * int(indent)) or lines[1][int(indent):int(indent) + 1] == ' '):
            raise Violation('indent %r not applied: %r' % (indent, text[:60]), d, 'indent')
    if seen is not None:
        key = (text if indent is None or indent <= 0 else None)
        if key is not None:
            prev = seen.get(key)
            if prev is not None and not json_equal(prev, v):
                raise Violation('two different values serialise to %r' % (text[:80],), dict(d, other=enc(prev)), 'not-injective')
            seen[key] = v
    return text


def embeddings(s):
    yield 'value', s
    yield 'array', [s]
    yield 'key', {s: 1.0}
    yield 'key+value', {s: s}
    yield 'num-neighbours', [1.0, s, 2.0, s + '1.0', 1.5]
    yield 'nested', {'k': [{s: [s, 10.0]}], 'a' + s: {'b': s}}
    yield 'two-keys', {s: 0.0, s + '.0': 1.0, '1.0,': s}


def punct_strings():
    return [''.join(p) for k in range(0, 5) for p in itertools.product(PUNCT, repeat=k)]


def interesting_string(s):
    return any(s[i] in '.0,]}' and s[i + 1] in '.0,]}' for i in range(len(s) - 1))


def nontrivial(v):
    strs, kinds = [], set()

    def walk(x):
        if isinstance(x, str):
            strs.append(x)
        elif isinstance(x, list):
            ks = {('n' if is_number(e) else 's' if isinstance(e, str) else None) for e in x}
            if {'n', 's'} <= ks:
                kinds.add('mixed')
            for e in x:
                walk(e)
        elif isinstance(x, dict):
            ks = {('n' if is_number(e) else 's' if isinstance(e, str) else None) for e in x.values()}
            if {'n', 's'} <= ks:
                kinds.add('mixed')
            for k, e in x.items():
                strs.append(k)
                walk(e)
    walk(v)
    return bool(kinds) or any(interesting_string(s) for s in strs)


_SURROGATE_PAIR = re.compile('([\ud800-\udbff])(?=[\udc00-\udfff])')


def _no_pair(s):
    # A high surrogate directly followed by a low one is the UTF-16 spelling of ONE non-BMP code point, not two code
    # points: such a str is outside "arbitrary Unicode strings". Both halves are kept (lone), separated by '-'.
    return _SURROGATE_PAIR.sub('\\1-', s)


json_strings = st.one_of(
    gv.strings,
    st.lists(st.sampled_from(list('.0,]}[{"\\/:e-+ 19a') + ['\n', '\x00', '\x1f', ' ', '\ud800', '\udc00', '\U0001f600', 'é']),
             max_size=10).map(''.join).map(_no_pair),
    st.text(max_size=8),
    # JSON's own words and the escape character as whole tokens (a string may end in a backslash, contain NaN / Infinity / null ...)
    st.lists(st.sampled_from(['NaN', 'Infinity', '-Infinity', 'null', 'true', 'false', '\\', '"', '\\"', ' ', 'a', ',', ':', '[', ']', '{', '}', '\\\\', '\\u0041', '\\n',
                              'undefined', '-', '1e5', '/*', '*/', '//', '/**/', '#', '<!--', '-->', '*', '/',
                              '</SCRIPT>', '</script>', '<script>', '</Script', '&lt;', '\u2028']), max_size=6).map(''.join),
    # texts that LOOK like another JSON-borne type (a parser must hand them back as the strings they are)
    st.sampled_from(['2024-03-01T12:30:00+00:00', '1999-12-31T23:59:59.999-05:00', '2024-03-01', '2024-03-01T12:30:00Z', '12:30', '1e5', '0x10', 'Infinity', '-0']),
    # very many brackets inside one string (nesting counted on the raw text would see a deep document)
    st.sampled_from(['[' * 2500, '{' * 2100 + '[' * 300, '[{' * 1300, ']' * 2500 + '[' * 2500, '"[' * 1100]),
    st.builds(lambda n, t: repr(n) + t, gv.finite_doubles, st.sampled_from(['', ',', ']', '}', '.0', '.0,', '.00]'])),
    # a number-like token inside a string, surrounded the way JSON surrounds numbers (a clean-up of the output text must not reach into strings)
    st.builds(lambda pre, tok, post: pre + tok + post, st.sampled_from(['', ' ', '[', ',', ':', 'a ', 'x:', '[1,', 'outside: ', '{"k":', ': ']),
              st.sampled_from(['-0', '-0.0', '0', '1.0', '-1.50', '1e5', '-0e0', '10.00', '2.0', '-00', '+0', '0.0e+00', '1.0E5']),
              st.sampled_from(['', ' ', ',', ']', '}', ' C', ', 5]', '}x', ',b', ' ]'])),
)
json_numbers = st.one_of(gv.finite_doubles, gv.finite_doubles, st.integers(-(2 ** 53) + 1, 2 ** 53 - 1), st.integers(-100, 100),
                         st.integers(-1000, 1000).map(float))
json_leaves = st.one_of(st.none(), st.booleans(), json_numbers, json_numbers, json_strings, json_strings)


def json_values(depth):
    if depth <= 0:
        return json_leaves
    sub = json_values(depth - 1)
    return st.one_of(json_leaves, st.lists(sub, max_size=4), st.dictionaries(json_strings, sub, max_size=4), st.dictionaries(json_strings, sub, max_size=4),
                     st.dictionaries(st.sampled_from(KEY_ORDER_POOL), sub, min_size=2, max_size=5))


# keys whose order differs between code points, UTF-16 code units, UTF-8 bytes of surrogate-escaped text, case-folded or NFC-normalised comparison
KEY_ORDER_POOL = ['\uff21', '\U0001f600', '\ufb01', '\ufffd', '\U00010000', 'k\U00010000', 'k\ufb01', '\ue000', '\U0010ffff', '\ud7ff', 'a', 'B', 'b', 'A', 'Z', '_',
                  'e\u0301', '\u00e9', '\u00c9', 'f', '10', '9', '1', '', ' ', 'a b', 'a.b', 'a\x00', 'ab']


def big_docs(seed, part):
    import random
    rnd = random.Random(seed * 2 + part)
    docs = []
    for n in (255, 256, 300, 1000):
        xs = [rnd.choice([0.5, 1e16, 3e22, -4e300, 123.0, 1e21, 2.0 ** 60, 295.25, float(rnd.randint(-5, 5)), 1e-7]) for _ in range(n)]
        docs.append(('float-array-%d' % n, xs))
        docs.append(('mixed-array-%d' % n, xs[:n // 2] + ['a\\', None, True] + xs[n // 2:]))
    rows = [{'amount': 0.5 + i, 'id': float(i), 'note': rnd.choice(['x\\', 'plain', 'q"uote', 'NaN', '']), 'tags': ['a', 'b\\']} for i in range(17000 if part else 9000)]
    docs.append(('megabyte-document', {'folder': 'C:\\data\\exports\\', 'rows': rows, 'z\\': [1e16, 'end']}))
    return docs


def share_subvalue(v, seed):
    """Make one container of v appear a second time elsewhere in v - the SAME object, not a copy (a value built by a script that stores one
    array / object in two places). The value stays acyclic: the second place is never inside the shared container."""
    import random
    rnd = random.Random(seed)
    nodes = []

    def walk(x):
        if isinstance(x, (list, dict)):
            nodes.append(x)
            for y in (x if isinstance(x, list) else x.values()):
                walk(y)
    walk(v)
    if len(nodes) < 2:
        return False
    node = rnd.choice(nodes[1:])
    inside = []
    saved, nodes[:] = list(nodes), []
    walk(node)
    inside = [id(x) for x in nodes]
    hosts = [x for x in saved if id(x) not in inside]
    host = rnd.choice(hosts)
    if isinstance(host, list):
        host.insert(rnd.randint(0, len(host)), node)
    else:
        host['shared' + str(rnd.randint(0, 3))] = node
    return True


def poison_and_repair(v, indent, seed):
    """Put something that has no JSON form (a non-finite number, the container itself) somewhere inside container v, let jsonStringify fail on it (with
    and without indentation), then take it out again - v is an ordinary JSON value once more. Returns False if v has no container."""
    if not isinstance(v, (list, dict)):
        return False
    rnd = random.Random(seed)
    path = [v]
    while True:
        kids = [x for x in (path[-1] if isinstance(path[-1], list) else path[-1].values()) if isinstance(x, (list, dict))]
        if not kids or rnd.random() < 0.4:
            break
        path.append(rnd.choice(kids))
    node = path[-1]
    bad = rnd.choice([float('inf'), float('-inf'), float('nan'), node, v, path[len(path) // 2]])
    if isinstance(node, list):
        at = rnd.randint(0, len(node))
        node.insert(at, bad)
    else:
        at = rnd.choice(['', 'zz', '\uffff', 'a'] + sorted(node)[:1])
        saved = node.get(at, node)
        node[at] = bad
    try:
        for n in ([indent, None] if indent else [None, 2]):
            log = []
            out = impl.run_model(models()['plain' if n is None else 'indent'], {'v': v, 'n': n}, log, debug=True)
            if out.kind != 'ok':
                raise Violation('jsonStringify of a value without a JSON form ended the script: %r' % (out,), {'kind': 'json', 'v': 'null', 'indent': enc(indent)}, 'stringify-raises')
    finally:
        if isinstance(node, list):
            del node[at]
        elif saved is node:
            del node[at]
        else:
            node[at] = saved
    return True


def plan(tier):
    parts = 6 if tier == 'quick' else 12
    specs = [{'kind': 'punct', 'part': i, 'parts': parts} for i in range(parts)]
    k = 8 if tier == 'quick' else 16
    specs += [{'kind': 'hyp', 'n': 3000 if tier == 'quick' else 40000, 'k': i} for i in range(k)]
    specs += [{'kind': 'big', 'part': i} for i in range(2)]
    return specs


def run_shard(ctx, spec):
    seen = {}
    if spec['kind'] == 'punct':
        allp = punct_strings()
        for ix in range(spec['part'], len(allp), spec['parts']):
            s = allp[ix]
            for name, v in embeddings(s):
                for indent in (None, 2.0):
                    try:
                        check_value(v, indent, seen)
                    except Violation as e:
                        ctx.violation(e)
                    ctx.case(digest(name + '|' + s + '|' + repr(indent)), interesting_string(s) or name == 'num-neighbours',
                             ['punct-' + name], {'value': v, 'indent': indent})
        ctx.exhaustive['all strings of length <= 4 over {a . 0 , ] }} x 7 embeddings x indent {none,2}'] = True
        return

    if spec['kind'] == 'big':
        # size thresholds: long arrays of numbers, documents of a megabyte and more (with strings ending in a backslash, whole numbers in
        # exponent form, every indent)
        docs = big_docs(ctx.seed, spec['part'])
        for name, v in docs:
            for indent in ((None, 2.0) if name == 'megabyte-document' else (None, 1.0, 4)):
                if (len(name) + (indent or 0)) % 2 != spec['part'] and name != 'megabyte-document':
                    continue
                try:
                    text = check_value(v, indent, seen)
                except Violation as e:
                    e.detail = {'kind': 'big', 'name': name, 'indent': indent, 'part': spec['part'], 'seed': ctx.seed}
                    ctx.violation(e)
                    text = ''
                ctx.case(digest([name, indent, spec['part']]), True, ['big:' + name.rsplit('-', 1)[0], 'indent' if indent else 'compact', 'text>=1MiB' if len(text) >= 1 << 20 else 'text<1MiB'],
                         {'name': name, 'indent': indent, 'length': len(text)})
        return

    def prop(v, indent, share, poison):
        tree = enc(v) if share else None
        shared = share_subvalue(v, share) if share else False
        poisoned = False
        try:
            if poison:
                poisoned = poison_and_repair(v, indent, poison)
            text = check_value(v, indent, seen)
        except Violation as e:
            if shared:
                e.detail.update(tree=tree, share=share)
            if poison:
                e.detail.update(poison=poison)
                e.bucket = 'after-failed-stringify:' + e.bucket
            raise
        depth = 0
        x = text
        ctx.case(digest(enc([v, indent])), nontrivial(v),
                 ['indent' if indent else 'compact', 'container' if isinstance(v, (list, dict)) else 'scalar', 'shared-subvalue' if shared else 'tree',
                  'stringified-after-a-failed-attempt' if poisoned else 'first-attempt',
                  'surrogate' if re.search('[\ud800-\udfff]', json.dumps(v, ensure_ascii=False)) else 'no-surrogate'],
                 {'value': v, 'indent': indent, 'text': text[:120]})
    indent = st.one_of(st.none(), st.none(), st.integers(1, 8).map(float), st.integers(1, 8))
    run_hypothesis(ctx, prop, [json_values(4), indent, st.one_of(st.just(0), st.just(0), st.integers(1, 2 ** 20)),
                               st.one_of(st.just(0), st.just(0), st.integers(1, 2 ** 20))], spec['n'], salt=spec['k'])


def replay(detail):
    if detail.get('kind') == 'big':
        v = dict(big_docs(detail['seed'], detail['part']))[detail['name']]
        check_value(v, detail['indent'], {})
        return
    v = dec(detail['v'])
    if detail.get('share'):
        v = dec(detail['tree'])
        share_subvalue(v, detail['share'])
    if detail.get('poison'):
        poison_and_repair(v, dec(detail['indent']), detail['poison'])
    check_value(v, dec(detail['indent']), {})
