"""C05 - runtime errors are contained: only documented exceptions escape."""
import copy
import datetime
import math
import random

from hypothesis import strategies as st

from pbt.common import impl
from pbt.common.core import Violation, dec, digest, enc, innermost_repo_frame, run_hypothesis
from pbt.gen import exprs as ge
from pbt.gen import programs as gp
from pbt.gen import values as gv
from pbt.refsem.library import FAILURE_VALUES
from pbt.refsem.values import ref_type
from pbt.checks import c12
from pbt.checks.c01 import gen_program, make_cc, make_probe

ID = 'C05'
LEVEL = 'exploration'
RULE = ('(a) seeded expression trees to depth 4 over an adversarial operand pool (0, -0, 1e308, 5e-324, +-inf and nan also produced by '
        'overflow in the text, 2**200 and 2**63 as host ints, datetimes at both ends of the range, arrays/objects holding non-finite '
        'numbers, every other type) under all 16 operators and stringifying/JSON/number/datetime library calls, evaluated as expression and '
        'as script; (b) every library function (except clock/random/fetch) with Hypothesis argument lists of 0-5 values mixing well-typed, '
        'wrong-typed, missing, surplus and adversarial values; (c) scripts calling host functions that raise (ValueError, KeyError, '
        'ZeroDivisionError, a custom Exception, BareScriptRuntimeError) or are not callable, at top level and inside script functions, with '
        'debug on and off; (d) the structured programs of C01 with adversarial globals. Oracle: only BareScriptRuntimeError/ParserError '
        'escape (other exception classes are bucketed by type and innermost bare_script frame); results are BareScript values (never '
        'complex/unknown); a failing call evaluates to null or the documented failure value, the following marker runs, debug mode logs '
        'exactly one `Function "<name>" failed` line per failure and none otherwise; a BareScriptRuntimeError from a host function propagates. '
        'Non-trivial: the case reached an adversarial operation (non-finite/huge/zero-divisor/out-of-range operand, failing call); '
        'distinct by text + operands.')
RULE += " Also: (e) recursion to depth 9000 in four shapes; (f) what library functions return (CSV with repeated header names and ragged rows, regex matches, parsed JSON, joins, ...) pushed through every operator and stringification; (g) systemFetch of arrays whose elements succeed, return null or raise; 18 host exception types incl. MemoryError / RecursionError; calls whose result cannot be allocated (stringRepeat('ab', 1e18)). MemoryError / RecursionError from exhausting the host are outside the property."
RULE += ' Round 7: containers that contain themselves as operands (two container variables under one comparison / arithmetic operator, the same one twice included): a RecursionError from such an operand is an escape.'
RULE += ' Round 8: every expression-string parameter of dataFilter / dataCalculatedField / dataJoin given text that is not an expression (12 texts, with and without a variables object, debug on and off); host and library calls that fail INSIDE such expression strings (reported once per failing call in debug mode, also with a variables object); wrong-typed arguments that cannot be shown in the failure message (nested deeper than the host can serialise, non-finite, self-containing) keep the exact documented failure value.'
ASSUMPTIONS = [
    'integer exponents are never huge host ints (int ** int with ~2**200 exponents does not terminate and is not bounded by maxStatements; '
    'outside every listed property)', 'sizes/counts are either small or beyond the platform index range (no multi-gigabyte allocations)',
    'RecursionError from pathologically deep expressions is outside the generated sizes',
]

INF = float('inf')
NAN = float('nan')
ADV_NUMBERS = [0.0, -0.0, 0, -1.0, 0.5, -0.5, 2.0, 1e308, -1e308, 5e-324, INF, -INF, NAN, 2 ** 200, -(2 ** 200), 2 ** 63, 1e19, 1e15, 3, 1e-320, 2 ** 2000]
ADV_DATETIMES = [datetime.datetime(9999, 12, 31, 23, 59, 59, 999000), datetime.datetime(1, 1, 1), datetime.date(9999, 12, 31), datetime.date(1, 1, 1),
                 datetime.datetime(2020, 1, 1), datetime.datetime(1, 1, 1, tzinfo=datetime.timezone.utc),
                 datetime.datetime(9999, 12, 31, 23, tzinfo=datetime.timezone(datetime.timedelta(hours=-5)))]
ADV_OTHER = [None, True, False, '', 'a', '1e400', [INF], [NAN, 1.0], {'a': INF}, [[-INF]], [], {}, [1.0, [2.0, {'k': NAN}]], gv.host_fn_b, gv.REGEXES[0],
             'x' * 50, [2 ** 200], {'n': 2 ** 2000}]
EXP_LITERALS = ['0', '1', '2', '0.5', '1000', '1e+308', '3', '0.1']
NUM_LITERALS = ['0', '1', '10', '1e+308', '5e-324', '0.5', '1e+308 * 10', '(1e+308 * 10 - 1e+308 * 10)', '(0 - 1e+308 * 10)', '(0 - 8)', '(0 - 0.5)',
                "numberParseInt('99999999999999999999999999999999')", 'mathCeil(1e+30)', '2 ** 1023 * 2']
CALLS = [('stringNew', 1), ('jsonStringify', 1), ('arrayJoin', 2), ('mathSqrt', 1), ('mathLn', 1), ('mathLog', 2), ('numberToFixed', 2), ('mathRound', 2),
         ('datetimeISOFormat', 1), ('mathFloor', 1), ('mathCeil', 1), ('mathAcos', 1),
         ('stringFromCharCode', 1), ('datetimeYear', 1), ('numberParseInt', 2), ('mathAtan2', 2), ('systemCompare', 2), ('arraySort', 1), ('mathMax', 2),
         ('arrayNew', 2), ('objectNew', 2), ('systemLog', 1), ('if', 3), ('datetimeMillisecond', 1), ('mathSign', 1), ('mathTan', 1), ('mathAbs', 1)]


def is_value(v, depth=0):
    t = ref_type(v)
    if t is None or isinstance(v, complex):
        return False
    if depth < 4:
        if isinstance(v, list):
            return all(is_value(x, depth + 1) for x in v)
        if isinstance(v, dict):
            return all(isinstance(k, str) and is_value(x, depth + 1) for k, x in v.items())
    return True


def contained(what, thunk, detail, recursion_escapes=False):
    """Run thunk(); anything other than the documented exceptions is a violation bucketed by root cause."""
    try:
        return ('ok', thunk())
    except impl.bs.RuntimeError as e:
        return ('runtime-error', str(e))
    except impl.bs.ParserError as e:
        return ('parser-error', str(e))
    except RecursionError as e:
        if recursion_escapes:
            # recursion of script functions: the interpreter's call wrapper turns the host's RecursionError into a failed
            # call (null); it must not reach the embedding application
            raise Violation('%s: RecursionError escaped to the embedding application' % what, detail, 'escaped:RecursionError') from e
        return ('recursion', None)
    except Exception as e:  # pylint: disable=broad-except
        where = innermost_repo_frame(e)
        raise Violation('%s: host exception %s escaped (%s) at %s' % (what, type(e).__name__, str(e)[:100], where), detail,
                        'escaped:%s@%s' % (type(e).__name__, where)) from e


# ---- (a) adversarial expressions --------------------------------------------------------------------------------------

def adv_globals(rnd):
    g = {}
    for i in range(3):
        g['n%d' % i] = rnd.choice(ADV_NUMBERS)
    g['n3'] = rnd.choice([v for v in ADV_NUMBERS if isinstance(v, float)])
    for i in range(2):
        g['d%d' % i] = rnd.choice(ADV_DATETIMES)
    for i in range(3):
        g['o%d' % i] = _fresh(rnd.choice(ADV_OTHER))
    if rnd.random() < 0.2:
        for i in rnd.sample(range(3), rnd.randint(1, 3)):
            g['o%d' % i] = rnd.choice(sorted(CYCLIC))
    return g


def adv_expr(rnd, d):
    k = rnd.random()
    if d <= 0 or k < 0.3:
        c = rnd.random()
        if c < 0.45:
            return rnd.choice(['n0', 'n1', 'n2', 'n3'])
        if c < 0.6:
            return rnd.choice(['d0', 'd1'])
        if c < 0.75:
            return rnd.choice(['o0', 'o1', 'o2'])
        return rnd.choice(NUM_LITERALS + ["''", "'a'", 'null', 'true'])
    if k < 0.34:
        # two container variables under one operator (the same one twice included)
        return '(%s %s %s)' % (rnd.choice(['o0', 'o1', 'o2']), rnd.choice(['==', '!=', '<', '<=', '>', '>=', '+', '-', '&&']), rnd.choice(['o0', 'o1', 'o2']))
    if k < 0.7:
        op = rnd.choice(ge.BINARY_OPS + ['/', '%', '**', '+', '-', '*'])
        left = adv_expr(rnd, d - 1)
        if op == '**':
            # the exponent is a float literal or the float-valued n3: int ** huge-int never terminates
            right = rnd.choice(EXP_LITERALS + ['n3', '(0 - 1)', '(0 - 0.5)'])
        else:
            right = adv_expr(rnd, d - 1)
        return '(%s %s %s)' % (left, op, right)
    if k < 0.78:
        return '%s(%s)' % (rnd.choice(['-', '!']), adv_expr(rnd, d - 1))
    name, n = rnd.choice(CALLS)
    nargs = n if rnd.random() < 0.8 else rnd.randint(0, 3)
    args = [adv_expr(rnd, d - 1) for _ in range(nargs)]
    if name in ('numberToFixed', 'mathRound') and len(args) >= 2:
        args[1] = rnd.choice(['0', '2', '20', '400', '0.5', '(0 - 1)', '1e+308 * 10'])     # digit counts: small or non-finite, never a huge int
    return '%s(%s)' % (name, ', '.join(args))


CYCLIC = {'$array-containing-itself': lambda: _cyclic([1.0]), '$object-containing-itself': lambda: _cyclic({'k': 1.0}),
          '$array-in-object-in-array': lambda: _cyclic([{'in': [2.0]}], ('in',))}


def _cyclic(root, path=()):
    node = root[0] if path else root
    for k in path:
        node = node[k]
    if isinstance(node, list):
        node.append(root)
    else:
        node['self'] = root
    return root


def materialise(g):
    """Globals written as plain data: the CYCLIC marker strings stand for fresh containers that contain themselves."""
    return {k: (CYCLIC[v]() if isinstance(v, str) and v in CYCLIC else v) for k, v in g.items()}


def check_adv_expression(text, g):
    d = {'kind': 'expr', 'text': text, 'globals': enc(g)}
    cyclic = any(isinstance(v, str) and v in CYCLIC for v in g.values())
    expr = impl.bs.parse_expression(text)
    g = materialise(g)
    g1 = copy.copy(g)
    g1.update((k, f) for k, f in impl.bs.SCRIPT_FUNCTIONS.items() if k not in g1)
    log = []
    # (an expression of depth <= 4 cannot exhaust the host stack by itself: a RecursionError here comes from a value that contains itself)
    r1 = contained('expression %r' % text, lambda: impl.bs.evaluate_expression(expr, {'globals': g1, 'logFn': log.append}, None, False), d, cyclic)
    model = impl.bs.parse_script('return ' + text)
    g2 = copy.copy(g)
    r2 = contained('script `return %s`' % text, lambda: impl.bs.execute_script(model, {'globals': g2, 'logFn': log.append, 'maxStatements': 1000}), d, cyclic)
    for r in (r1, r2):
        if r[0] == 'ok' and not is_value(r[1]):
            raise Violation('%r evaluates to %r, which is not a BareScript value' % (text, r[1]), d, 'not-a-value:' + type(r[1]).__name__)
    return r1


# ---- (b) library calls ---------------------------------------------------------------------------------------------

adv_value = st.one_of(st.sampled_from(ADV_NUMBERS), st.sampled_from(ADV_DATETIMES), st.sampled_from(ADV_OTHER))


def check_library_call(name, args, debug=True):
    args = _fresh(args)
    d = {'kind': 'call', 'fn': name, 'args': enc(args)}
    names = ['a%d' % i for i in range(len(args))]
    g = dict(zip(names, args))
    log = []
    model = impl.bs.parse_script('r = %s(%s)\nsystemLog(\'after\')\nreturn r' % (name, ', '.join(names)))
    opts = {'globals': g, 'logFn': log.append, 'maxStatements': 5000}
    if debug:
        opts['debug'] = True
    res = contained('%s(...)' % name, lambda: impl.bs.execute_script(model, opts), d)
    if res[0] != 'ok':
        if res[0] == 'runtime-error' and name == 'systemFetch':
            return False
        raise Violation('%s(...) ended the script with %s %r instead of evaluating to null' % (name, res[0], res[1]), d, 'call-aborts:' + name)
    if not is_value(res[1]):
        raise Violation('%s(...) returned %r, which is not a BareScript value' % (name, res[1]), d, 'not-a-value:' + name)
    all_failed = [m for m in log if isinstance(m, str) and m.startswith('BareScript: Function "')]
    # functions that evaluate expressions or call back (data*, arraySort, ...) may log failures of the inner calls too
    failed = [m for m in all_failed if m.startswith('BareScript: Function "%s" failed with error: ' % name)]
    if 'after' not in log:
        raise Violation('execution did not continue after %s(...)' % name, d, 'no-continue:' + name)
    if any(' failed with error: ' not in m for m in all_failed):
        raise Violation('%s(...) malformed failure log %r' % (name, all_failed), d, 'failure-log:' + name)
    if failed:
        if len(failed) != 1:
            raise Violation('%s(...) failure logged %d times: %r' % (name, len(failed), failed), d, 'failure-log:' + name)
        want = FAILURE_VALUES.get(name)
        ok = res[1] is None or (want is not None and res[1] == want and type(res[1]) is type(want))
        if name == 'objectGet' and len(args) >= 3:
            ok = ok or res[1] is args[2] or res[1] == args[2]
        if not ok:
            raise Violation('failing %s(...) evaluated to %r (expected null or its documented failure value)' % (name, res[1]), d, 'failure-value:' + name)
    # the spreadsheet alias of the function, evaluated with no options object at all (arguments as locals)
    alias = ALIAS_OF.get(name)
    if alias is not None:
        expr = impl.bs.parse_expression('%s(%s)' % (alias, ', '.join(names)))
        r2 = contained('%s(...) without options' % alias, lambda: impl.bs.evaluate_expression(expr, None, dict(zip(names, _fresh(args)))), d)
        if r2[0] == 'ok' and not is_value(r2[1]):
            raise Violation('%s(...) returned %r' % (alias, r2[1]), d, 'not-a-value:' + alias)
    if not debug and any(isinstance(m, str) and m.startswith('BareScript:') for m in log):
        raise Violation('%s(...) logged %r with debug off' % (name, log[:2]), d, 'log-without-debug:' + name)
    return bool(failed)


ALIAS_OF = {}


def _fresh(v):
    """Deep copy of generated values (pool constants are shared between cases and library calls mutate them)."""
    if isinstance(v, list):
        return [_fresh(x) for x in v]
    if isinstance(v, dict):
        return {k: _fresh(x) for k, x in v.items()}
    return v


def _same_struct(a, b):
    try:
        return repr(a) == repr(b)
    except Exception:  # pylint: disable=broad-except
        return True


# ---- (c) failing host functions ------------------------------------------------------------------------------------

class CustomError(Exception):
    pass


HOST_KINDS = ['ok', 'ValueError', 'KeyError', 'ZeroDivisionError', 'CustomError', 'TypeError', 'BareScriptRuntimeError', 'not-callable', 'OverflowError',
              'MemoryError', 'RecursionError', 'StopIteration', 'AssertionError', 'OSError', 'AttributeError', 'IndexError', 'NotImplementedError', 'Exception']


def make_host(kind, tag, calls):
    if kind == 'not-callable':
        return 'just a string'

    def fn(args, options):
        calls.append(tag)
        if kind == 'ok':
            return 7.0
        if kind == 'BareScriptRuntimeError':
            raise impl.bs.RuntimeError('host says stop ' + tag)
        exc = {'CustomError': CustomError}.get(kind) or getattr(__import__('builtins'), kind)
        if len(calls) % 3 == 0:
            raise exc()             # (an exception without any message: `raise KeyError`, a failing `assert`, `raise NotImplementedError`)
        raise exc('boom ' + tag)
    fn.__name__ = 'host_' + tag
    return fn


DATA_HELPER_CALLS = {'dataFilter': "dataFilter(rows, '%s'%s)", 'dataCalculatedField': "dataCalculatedField(rows, 'c', '%s'%s)",
                     'dataJoin': "dataJoin(rows, rows, '%s', null, false%s)", 'dataJoinRight': "dataJoin(rows, rows, 'a', '%s', true%s)"}


def check_data_expression_failures(helper, variables, debug, kind):
    """A host / library call that fails inside the expression string of a data function (evaluated once per row): each failing call is null, is reported
    through logFn in debug mode - with or without a variables object - and the script continues."""
    d = {'kind': 'data-expression', 'helper': helper, 'variables': variables, 'debug': debug, 'failing': kind}
    calls = []
    g = {'hf': make_host(kind, 'hf', calls)} if kind != 'library' else {}
    expr = 'hf(a)' if kind != 'library' else 'arrayGet(a, 5)'
    vtext = {None: '', 'empty': ', objectNew()', 'one': ", objectNew('limit', 2)"}[variables]
    if helper in ('dataJoin', 'dataJoinRight') and variables is None:
        call = DATA_HELPER_CALLS[helper].replace(', null, false%s', '%s').replace(', true%s', '%s') % (expr, '')
    else:
        call = DATA_HELPER_CALLS[helper] % (expr, vtext)
    src = "rows = arrayNew(objectNew('a', 1), objectNew('a', 2), objectNew('a', 3))\nr = %s\nsystemLog('after')\nreturn r" % call
    log = []
    opts = {'globals': g, 'logFn': log.append, 'maxStatements': 1000}
    if debug:
        opts['debug'] = True
    res = contained(call, lambda: impl.bs.execute_script(impl.bs.parse_script(src), opts), d)
    if res[0] != 'ok' or 'after' not in log:
        raise Violation('%s: the script did not continue after failing calls inside the expression: %r' % (call, res), d, 'data-expression-aborts')
    name = 'hf' if kind != 'library' else 'arrayGet'
    failed = [m for m in log if isinstance(m, str) and m.startswith('BareScript: Function "%s" failed with error: ' % name)]
    expected = (len(calls) if kind != 'library' else {'dataFilter': 3, 'dataCalculatedField': 3, 'dataJoin': 6, 'dataJoinRight': 3}[helper]) if debug else 0
    if kind != 'library' and not calls:
        raise Violation('%s never called the host function of its expression' % call, d, 'data-expression-not-evaluated')
    if len(failed) != expected:
        raise Violation('%s: %d failing %s calls, %d reported through logFn with debug %s' % (call, len(calls) or expected, name, len(failed), 'on' if debug else 'off'), d,
                        'data-expression-failure-log')
    if not debug and any(isinstance(m, str) and m.startswith('BareScript:') for m in log):
        raise Violation('%s logged %r with debug off' % (call, log[:2]), d, 'log-without-debug:' + helper)


def check_host_failures(kinds, in_function, nested, debug, log_mode='fn', with_include=False):
    """kinds: list of host function behaviours, called in order as hf0(), hf1(), ...; log_mode: the host passes a log function, none at all, or
    an explicit null; with_include: the script first includes a file that lint has something to say about (debug mode reports that through logFn)."""
    d = {'kind': 'host', 'kinds': kinds, 'in_function': in_function, 'nested': nested, 'debug': debug, 'log_mode': log_mode, 'with_include': with_include}
    calls = []
    g = {'hf%d' % i: make_host(k, 'hf%d' % i, calls) for i, k in enumerate(kinds)}
    lines = []
    for i, _ in enumerate(kinds):
        call = 'hf%d(%d)' % (i, i)
        lines.append('r%d = %s' % (i, ('1 + ' + call) if nested and i % 2 else call))
        lines.append("systemLog('m%d ' + stringNew(r%d))" % (i, i))
    if in_function:
        lines = ['function run():'] + ['    ' + ln for ln in lines] + ["    return 'done'", 'endfunction', 'return run()']
    else:
        lines.append("return 'done'")
    if with_include:
        lines.insert(0, "include 'lintwarn.bare'")
    src = '\n'.join(lines)
    d['source'] = src
    log = []
    opts = {'globals': g, 'logFn': log.append, 'maxStatements': 2000}
    if log_mode == 'absent':
        del opts['logFn']
    elif log_mode == 'none':
        opts['logFn'] = None
    if with_include:
        opts['fetchFn'] = lambda req: "function unusedArg(aa, bb):\n    cc = 1\n    return aa\nendfunction\n" if req['url'] == 'lintwarn.bare' else None
    if debug:
        opts['debug'] = True
    model = impl.bs.parse_script(src)
    res = contained('script with failing host functions', lambda: impl.bs.execute_script(model, opts), d)
    # expected
    exp_log = []
    exp_res = ('ok', 'done')
    for i, k in enumerate(kinds):
        tag = 'hf%d' % i
        if k == 'BareScriptRuntimeError':
            exp_res = ('runtime-error', 'host says stop ' + tag)
            break
        if k == 'ok':
            val = '8' if (nested and i % 2) else '7'
        else:
            if debug:
                exp_log.append(('failed', tag))
            val = 'null'
        exp_log.append('m%d %s' % (i, val))
    got_log = []
    for m in log:
        if isinstance(m, str) and m.startswith('BareScript: Function "'):
            name = m[len('BareScript: Function "'):].split('"')[0]
            if ' failed with error: ' not in m:
                raise Violation('malformed failure log line %r' % m, d, 'failure-log-format')
            got_log.append(('failed', name))
        else:
            got_log.append(m)
    if res != exp_res:
        raise Violation('script ended with %r, expected %r' % (res, exp_res), d, 'host-outcome')
    if log_mode != 'fn':
        return
    got_log = [m for m in got_log if not (isinstance(m, str) and m.startswith('BareScript: Include "lintwarn.bare"')) and not (isinstance(m, str) and m.startswith('BareScript:     '))]
    if got_log != exp_log:
        raise Violation('log is %r, expected %r' % (got_log, exp_log), d, 'host-log' + ('-debug' if debug else '-nodebug'))


# ---- (g) the host's fetch function fails for some resources -----------------------------------------------------------------------

def check_fetch(items, as_objects, debug, with_url_fn):
    """items: [(resource name, 'text' | 'none' | exception type name)]. systemFetch of the array: each element is the text or null, a
    failing fetchFn is a null for THAT element only, reported through logFn in debug mode; execution continues."""
    d = {'kind': 'fetch', 'items': items, 'as_objects': as_objects, 'debug': debug, 'with_url_fn': with_url_fn}
    behaviour = {}
    for i, (name, how) in enumerate(items):
        behaviour.setdefault(name, how)
    calls = []

    def fetch(request):
        url = request['url']
        calls.append(url)
        how = behaviour.get(url[len('base/'):] if with_url_fn and url.startswith('base/') else url, 'none')
        if how == 'text':
            return 'text of ' + url
        if how == 'none':
            return None
        raise {'CustomError': CustomError}.get(how) or getattr(__import__('builtins'), how)('cannot fetch ' + url)
    urls = [({'url': n} if as_objects and i % 2 else n) for i, (n, _) in enumerate(items)]
    log = []
    opts = {'globals': {'uu': urls}, 'logFn': log.append, 'fetchFn': fetch, 'maxStatements': 100}
    if debug:
        opts['debug'] = True
    if with_url_fn:
        opts['urlFn'] = lambda u: 'base/' + u
    model = impl.bs.parse_script("rr = systemFetch(uu)\nsystemLog('after')\nreturn rr")
    res = contained('systemFetch of %d resources' % len(items), lambda: impl.bs.execute_script(model, opts), d)
    prefix = 'base/' if with_url_fn else ''
    want = [('text of ' + prefix + n) if behaviour[n] == 'text' else None for n, _ in items]
    if res != ('ok', want):
        raise Violation('systemFetch(%r) with fetchFn behaviours %r returned %r, expected %r' % ([n for n, _ in items], [h for _, h in items], res, want), d,
                        'fetch-result')
    want_log = ['BareScript: Function "systemFetch" failed for resource "%s%s"' % (prefix, n) for n, _ in items if behaviour[n] != 'text'] if debug else []
    if [m for m in log if m != 'after'] != want_log or 'after' not in log:
        raise Violation('systemFetch log is %r, expected %r followed by the next statement' % (log, want_log), d, 'fetch-log')
    if calls != [prefix + n for n, _ in items]:
        raise Violation('fetchFn was called for %r, expected %r' % (calls, [prefix + n for n, _ in items]), d, 'fetch-calls')


# ---- (f) what library functions return, pushed through every operator ------------------------------------------------------------

RESULT_USES = ["'' + vv", "vv + ''", 'vv == vv', 'vv != ww', 'vv < ww', 'vv >= vv', '!vv', '-vv', 'vv && 1', 'vv || 0', 'vv + 1', 'vv - ww', 'vv * 2', 'vv / 2', 'vv % 2', 'vv ** 2',
               'jsonStringify(vv)', 'stringNew(vv)', 'systemCompare(vv, ww)', 'systemType(vv)', 'arrayNew(vv, ww) == arrayNew(ww, vv)', 'objectNew(\'k\', vv) == objectNew(\'k\', ww)',
               'systemBoolean(vv)', 'arrayJoin(arrayNew(vv, ww), \',\')', 'arraySort(arrayNew(ww, vv))', 'arrayIndexOf(arrayNew(ww), vv)']
_csv_cell = st.sampled_from(['a', 'b', 'a', '', '1', '2.5', 'x y', '"q, r"', '"a"', '2024-01-02', 'null', 'true'])
_csv_line = st.lists(_csv_cell, min_size=0, max_size=5).map(','.join)
_csv_text = st.lists(_csv_line, min_size=0, max_size=5).map('\n'.join)
RESULT_CALLS = st.one_of(
    _csv_text.map(lambda t: ('dataParseCSV(tt)', {'tt': t})),
    st.lists(_csv_line, max_size=4).map(lambda ls: ('dataParseCSV(%s)' % ', '.join('t%d' % i for i in range(len(ls))), {'t%d' % i: ln for i, ln in enumerate(ls)})),
    st.sampled_from([('jsonParse(tt)', {'tt': t}) for t in ['{"a": [1, {"b": null}]}', '[1e400, -1e400]', '{"": 1, "a": {"": []}}', '[[[[[[1]]]]]]', '{"a": 1, "a": 2}', 'NaN', '[Infinity]']] +
                    [('regexMatch(regexNew(pp), tt)', {'pp': p, 'tt': t}) for p, t in [('(a)(?P<n>b)?', 'xa'), ('(?P<a>.)(?P<b>.)?', 'q'), ('()', ''), ('a|(b)', 'a')]] +
                    [('regexMatchAll(regexNew(pp), tt)', {'pp': '(a)|(?P<n>b)', 'tt': 'ab-a'}), ('regexSplit(regexNew(pp), tt)', {'pp': '(,)', 'tt': 'a,b'}),
                     ('schemaParse(tt)', {'tt': 'struct A\n  int a'}), ('dataAggregate(jsonParse(tt), objectNew(\'measures\', arrayNew(objectNew(\'field\', \'a\', \'function\', \'sum\'))))', {'tt': '[{"a": 1}, {"a": null}, {}]'}),
                     ('dataJoin(jsonParse(tt), jsonParse(tt), \'a\')', {'tt': '[{"a": 1, "a2": 2}, {"a": 1}]'}), ('urlEncode(tt)', {'tt': 'a b\ud800'}), ('stringSplit(tt, \'\')', {'tt': 'abc'}),
                     ('objectNew(\'a\')', {}), ('arrayNewSize(3, arrayNew())', {}), ('datetimeISOParse(tt)', {'tt': '2024-02-29T12:00:00Z'}), ('numberParseInt(tt)', {'tt': '9' * 400}),
                     ('systemPartial(systemLog, 1)', {}), ('regexNew(tt)', {'tt': '('}), ('objectAssign(objectNew(), jsonParse(tt))', {'tt': '{"a": {"b": 1}}'})]))


def check_result_operators(call, g, use, pick, debug):
    """vv = <library call>; ww = a second, equal result; then `use`, optionally on an element / member of the result."""
    d = {'kind': 'result', 'call': call, 'globals': g, 'use': use, 'pick': pick, 'debug': debug}
    lines = ['vv = ' + call, 'ww = ' + call]
    if pick == 'first':
        lines += ['vv = if(systemType(vv) == \'array\', arrayGet(vv, 0), vv)', 'ww = if(systemType(ww) == \'array\', arrayGet(ww, arrayLength(ww) - 1), ww)']
    elif pick == 'values':
        lines += ['vv = if(systemType(vv) == \'object\', objectKeys(vv), vv)']
    lines += ['rr = ' + use, "systemLog('after')", 'return rr']
    src = '\n'.join(lines)
    d['source'] = src
    log = []
    opts = {'globals': dict(g), 'logFn': log.append, 'maxStatements': 1000}
    if debug:
        opts['debug'] = True
    model = impl.parse_valid(src, d)
    res = contained('%s with vv = %s' % (use, call), lambda: impl.bs.execute_script(model, opts), d)
    if res[0] != 'ok':
        raise Violation('%s with vv = %s ended the script with %s %r' % (use, call, res[0], res[1]), d, 'result-aborts')
    if not is_value(res[1]) or not is_value(opts['globals'].get('vv')):
        raise Violation('%s with vv = %s: %r / %r is not a BareScript value' % (use, call, res[1], opts['globals'].get('vv')), d, 'result-not-a-value')
    if 'after' not in log:
        raise Violation('execution did not continue after %s' % use, d, 'result-no-continue')
    return res


# ---- (e) deep and unbounded recursion of script functions ---------------------------------------------------------------

RECURSION_SHAPES = {
    'direct': """function rec(n):
    if n > 0:
        return rec(n - 1) + 1
    endif
    return 0
endfunction
{use}
""",
    'mutual': """function isEven(n):
    if n == 0:
        return true
    endif
    return isOdd(n - 1)
endfunction
function isOdd(n):
    if n == 0:
        return false
    endif
    return isEven(n - 1)
endfunction
function rec(n):
    return isEven(n)
endfunction
{use}
""",
    'in-arguments': """function rec(n):
    return if(n > 0, mathMax(0, rec(n - 1)) + 1, 0)
endfunction
{use}
""",
    'unbounded': """function rec(n):
    return rec(n + 1)
endfunction
{use}
""",
}
RECURSION_USES = ['return rec({n})', "xx = rec({n})\nsystemLog('after')\nreturn stringNew(xx)", 'return arrayNew(rec({n}), rec(3))']


def check_recursion(shape, use, n, debug, via_expression):
    src = RECURSION_SHAPES[shape].format(use=RECURSION_USES[use].format(n=n))
    d = {'kind': 'recursion', 'shape': shape, 'use': use, 'n': n, 'debug': debug, 'via_expression': via_expression, 'source': src}
    log = []
    opts = {'globals': {}, 'logFn': log.append, 'maxStatements': 2e5 if debug else 200000}
    if debug:
        opts['debug'] = True
    model = impl.parse_valid(src, d)
    res = contained('recursive script (depth %s)' % n, lambda: impl.bs.execute_script(model, opts), d, True)
    if res[0] == 'ok' and not is_value(res[1]):
        raise Violation('recursive script returned %r' % (res[1],), d, 'not-a-value')
    if via_expression and shape != 'unbounded':
        expr = impl.bs.parse_expression('rec(%d) + 1' % n)
        res2 = contained('expression calling a recursive script function', lambda: impl.bs.evaluate_expression(expr, opts), d, True)
        if res2[0] == 'ok' and not is_value(res2[1]):
            raise Violation('expression returned %r' % (res2[1],), d, 'not-a-value')
    if shape != 'unbounded' and n <= 50 and res != ('ok', {0: float(n), 1: None, 2: None}.get(use, None)) and use == 0 and shape == 'direct':
        raise Violation('rec(%d) = %r' % (n, res), d, 'recursion-value')
    return res


# ---- (d) programs with adversarial globals --------------------------------------------------------------------------

def check_program(src, g):
    d = {'kind': 'program', 'source': src, 'globals': enc({k: v for k, v in g.items()})}
    log = []
    g2 = copy.copy(g)
    g2['probe'] = make_probe(log)
    g2['cc'] = make_cc(log, [True, False])
    model = impl.parse_valid(src, d)

    def run():
        try:
            return impl.bs.execute_script(model, {'globals': g2, 'logFn': lambda m: None, 'maxStatements': 5000.0 if len(src) % 2 else 5000})       # (hosts write budgets as 5e3 too)
        except MemoryError:
            # a generated program that doubles a string / array in nested loops until the shard's address-space net is hit: exhausting the
            # host is outside the property (the core discards the case)
            raise
    try:
        res = contained('program', run, d)
    except Violation as v:
        if v.bucket.startswith('escaped:MemoryError'):
            raise MemoryError() from v
        raise
    if res[0] == 'ok' and not is_value(res[1]):
        raise Violation('program returned %r, which is not a BareScript value' % (res[1],), d, 'not-a-value')
    return res


# host ints beyond 2**53 are left out of looping programs: int * int never overflows, so repeated squaring in a loop
# grows without bound (memory), which no listed property is about
PROGRAM_ADV = [v for v in ADV_NUMBERS if not (isinstance(v, int) and abs(v) > 2 ** 53)] + ADV_DATETIMES + ADV_OTHER[:12]


def plan(tier):
    from pbt.refsem.interp import EXPRESSION_ALIASES
    ALIAS_OF.update({v: k for k, v in EXPRESSION_ALIASES.items() if k not in ('now', 'today', 'rand')})
    k = 5 if tier == 'quick' else 16
    specs = [{'kind': 'expr', 'n': 6000 if tier == 'quick' else 60000, 'k': i} for i in range(k)]
    names = sorted(n for n in impl.bs.SCRIPT_FUNCTIONS if n not in c12.EXCLUDED)
    kk = 6 if tier == 'quick' else 16
    specs += [{'kind': 'calls', 'n': 2500 if tier == 'quick' else 30000, 'k': i, 'names': names[i::kk]} for i in range(kk)]
    specs += [{'kind': 'host', 'n': 1200 if tier == 'quick' else 20000, 'k': 0}]
    specs += [{'kind': 'recursion', 'part': i, 'parts': 3} for i in range(3)]
    specs += [{'kind': 'badexpr'}]
    specs += [{'kind': 'results', 'n': 2500 if tier == 'quick' else 30000, 'k': i} for i in range(1 if tier == 'quick' else 3)]
    specs += [{'kind': 'programs', 'n': 1000 if tier == 'quick' else 10000, 'k': i} for i in range(4 if tier == 'quick' else 8)]
    return specs


def adversarial_text(text):
    return any(t in text for t in ('/', '%', '**', '1e+308', 'n0', 'n1', 'n2', 'n3', 'd0', 'd1', 'numberParseInt', 'mathCeil'))


BAD_EXPRESSIONS = ['a +', '(', 'a b', '', "'unterminated", 'a ==', ')', '1 2', 'a b c(', '@', 'fn(a,', '[x']


def bad_expression_calls():
    """Every expression-string parameter of the data functions given text that is not an expression (the other expression valid)."""
    rows = [{'a': 1.0, 'b': 2.0}, {'a': 2.0, 'b': 3.0}]
    for bad in BAD_EXPRESSIONS:
        for variables in ((), ({'n': 1.0},)):
            yield 'dataFilter', [rows, bad] + list(variables)
            yield 'dataCalculatedField', [rows, 'c', bad] + list(variables)
            yield 'dataJoin', [rows, rows, bad] + ([None, False] + list(variables) if variables else [])
            yield 'dataJoin', [rows, rows, 'a', bad] + ([True] + list(variables) if variables else [])
            yield 'dataJoin', [rows, rows, bad, 'a'] + ([False] + list(variables) if variables else [])
            yield 'dataJoin', [rows, rows, bad, bad]


def run_shard(ctx, spec):
    if spec['kind'] == 'badexpr':
        for name, args in bad_expression_calls():
            for debug in (True, False):
                try:
                    check_library_call(name, args, debug)
                except Violation as v:
                    ctx.violation(v)
                ctx.case(digest(['badexpr', name, enc(args), debug]), True, ['bad-expression:' + name, 'debug' if debug else 'no-debug'], {'fn': name, 'args': args})
        ctx.exhaustive['every expression parameter of dataFilter / dataCalculatedField / dataJoin x %d texts that are not expressions' % len(BAD_EXPRESSIONS)] = True
        for helper in sorted(DATA_HELPER_CALLS):
            for variables in (None, 'empty', 'one'):
                for debug in (True, False):
                    for kind in ('ValueError', 'KeyError', 'CustomError', 'library'):
                        try:
                            check_data_expression_failures(helper, variables, debug, kind)
                        except Violation as v:
                            ctx.violation(v)
                        ctx.case(digest(['data-expression', helper, variables, debug, kind]), True,
                                 ['failure-inside-data-expression:' + helper, 'variables' if variables else 'no-variables', 'debug' if debug else 'no-debug'],
                                 {'helper': helper, 'variables': variables, 'debug': debug, 'failing': kind})
        # wrong-typed arguments whose value cannot be shown in the failure message (nested deeper than the host can serialise, not finite, containing
        # itself): the call still evaluates to its documented failure value and is reported in debug mode (the exact rule of C15, run here as well)
        from pbt.checks import c15
        for fn, pos, odd in c15.odd_wrong_cases():
            if odd not in ('deepA', 'inf', 'cyA', 'cyO'):
                continue
            try:
                c15.check_odd_wrong(fn, pos, odd)
            except Violation as v:
                ctx.violation(v)
            ctx.case(digest(['odd-wrong', fn, pos, odd]), True, ['unshowable-wrong-typed-argument:' + odd], {'fn': fn, 'position': pos, 'argument': odd})
        return
    if spec['kind'] == 'expr':
        def prop(seed, size):
            rnd = random.Random(seed)
            g = adv_globals(rnd)
            text = adv_expr(rnd, min(size, 4))
            try:
                r = check_adv_expression(text, g)
            except Violation as v:
                v.detail.update(seed=seed, size=size)
                raise
            ctx.case(digest([text, enc(g)]), adversarial_text(text), ['expr', 'outcome:' + r[0], 'result:' + str(ref_type(r[1]) if r[0] == 'ok' else None)],
                     {'text': text, 'globals': g})
        run_hypothesis(ctx, prop, [st.integers(0, 2 ** 32 - 1), st.integers(1, 4)], spec['n'], salt=spec['k'], rounds=6, minimise=minimise_expr)
        return
    if spec['kind'] == 'calls':
        @st.composite
        def call(draw):
            name, args = draw(c12.call_strategy(spec['names']))
            args = list(args)
            for i in range(len(args)):
                if draw(st.integers(0, 4)) == 0:
                    args[i] = draw(adv_value)
            if draw(st.integers(0, 9)) == 0:
                args.append(draw(adv_value))
            return name, c12.clamp_sizes(name, _no_mid_sizes(name, args)), draw(st.booleans())

        def cprop(c):
            name, args, debug = c
            failed = check_library_call(name, args, debug)
            ctx.case(digest(enc([name, args, debug])), failed, ['fn:%s:%s' % (name, 'failed' if failed else 'ok'), 'debug' if debug else 'no-debug'],
                     {'fn': name, 'args': args})
        run_hypothesis(ctx, cprop, [call()], spec['n'], salt=20 + spec['k'], rounds=4)
        return
    if spec['kind'] == 'recursion':
        depths = [3, 40, 150, 400, 1200, 4000] if ctx.tier == 'quick' else [3, 40, 150, 400, 800, 1200, 2500, 4000, 9000]
        cases = [(sh, u, n, dbg, ve) for sh in RECURSION_SHAPES for u in range(len(RECURSION_USES)) for n in depths for dbg in (False, True) for ve in (False, True)]
        for ix in range(spec['part'], len(cases), spec['parts']):
            sh, u, n, dbg, ve = cases[ix]
            if sh == 'unbounded' and n != depths[0]:
                continue
            try:
                r = check_recursion(sh, u, n, dbg, ve)
            except Violation as v:
                ctx.violation(v)
                continue
            ctx.case(digest([sh, u, n, dbg, ve]), n >= 400 or sh == 'unbounded', ['recursion:' + sh, 'recursion-outcome:' + r[0]], {'shape': sh, 'depth': n})
        return
    if spec['kind'] == 'results' and spec['k'] == 0:
        def fprop(items, as_objects, debug, with_url_fn):
            check_fetch(items, as_objects, debug, with_url_fn)
            ctx.case(digest([items, as_objects, debug, with_url_fn]), any(h != 'text' for _, h in items) and any(h == 'text' for _, h in items),
                     ['fetch', 'fetch-failures' if any(h not in ('text', 'none') for _, h in items) else 'fetch-no-exception'], {'items': items})
        item = st.tuples(st.sampled_from(['a.txt', 'b.txt', 'c/d.json', 'x', 'y z', '']), st.sampled_from(['text', 'text', 'none', 'OSError', 'KeyError', 'CustomError', 'MemoryError',
                                                                                                             'RecursionError', 'ValueError']))
        run_hypothesis(ctx, fprop, [st.lists(item, min_size=1, max_size=6), st.booleans(), st.booleans(), st.booleans()], 600 if ctx.tier == 'quick' else 10000, salt=95)
    if spec['kind'] == 'results':
        def rprop(c, use, pick, debug):
            call, g = c
            r = check_result_operators(call, g, use, pick, debug)
            ctx.case(digest([call, g, use, pick]), True, ['result-of:' + call.split('(')[0], 'result-pick:' + pick, 'result:' + str(ref_type(r[1]))],
                     {'call': call, 'globals': g, 'use': use})
        run_hypothesis(ctx, rprop, [RESULT_CALLS, st.sampled_from(RESULT_USES), st.sampled_from(['whole', 'whole', 'first', 'values']), st.booleans()], spec['n'],
                       salt=90 + spec['k'], rounds=4)
        return
    if spec['kind'] == 'host':
        # calls whose result cannot be allocated fail at once (no memory is touched): they are failed calls like any other
        for name, args in [('stringRepeat', ['ab', 1e18]), ('stringRepeat', ['ab', 4e18]), ('stringRepeat', ['a' * 10, 9e17]), ('stringRepeat', ['ab', 1e30])]:
            for debug in (False, True):
                try:
                    failed = check_library_call(name, args, debug)
                except Violation as v:
                    ctx.violation(v)
                    continue
                ctx.case(digest([name, args, debug]), True, ['fn:%s:%s' % (name, 'failed' if failed else 'ok'), 'unallocatable-result'], {'fn': name, 'args': args})

        def hprop(kinds, in_function, nested, debug, log_mode, with_include):
            check_host_failures(kinds, in_function, nested, debug, log_mode, with_include)
            ctx.case(digest([kinds, in_function, nested, debug, log_mode, with_include]), any(k != 'ok' for k in kinds),
                     ['host', 'debug' if debug else 'no-debug', 'in-function' if in_function else 'top-level', 'logFn:' + log_mode] + ['host:' + k for k in set(kinds)] +
                     (['include-with-lint-warnings'] if with_include else []),
                     {'kinds': kinds, 'in_function': in_function, 'nested': nested, 'debug': debug, 'log_mode': log_mode})
        run_hypothesis(ctx, hprop, [st.lists(st.sampled_from(HOST_KINDS), min_size=1, max_size=6), st.booleans(), st.booleans(), st.booleans(),
                                    st.sampled_from(['fn', 'fn', 'absent', 'none']), st.sampled_from([False, False, True])],
                       spec['n'], salt=40)
        return

    def pprop(seed, size):
        rnd = random.Random(seed)
        prog, src, globals0, pg = gen_program(rnd, size)
        for k in list(globals0):
            if rnd.random() < 0.6:
                globals0[k] = _fresh(rnd.choice(PROGRAM_ADV))
        if 'garr' in globals0 and not isinstance(globals0['garr'], list):
            globals0['garr'] = [INF, 0.0, -1e308]
        try:
            r = check_program(src, globals0)
        except Violation as v:
            v.detail.update(seed=seed, size=size)
            raise
        ctx.case(digest([src, enc(globals0)]), True, ['program', 'outcome:' + r[0]], {'source': src, 'globals': globals0})
    run_hypothesis(ctx, pprop, [st.integers(0, 2 ** 32 - 1), st.integers(1, 4)], spec['n'], salt=60 + spec['k'], rounds=4)


def _no_mid_sizes(name, args):
    """datetimeNew walks month by month over its day/hour/... overflow: keep finite components within +-1e6."""
    if name != 'datetimeNew':
        return args
    return [type(a)(10 ** 6 if a > 0 else -10 ** 6) if (isinstance(a, (int, float)) and not isinstance(a, bool) and (isinstance(a, int) or math.isfinite(a)) and abs(a) > 10 ** 6)
            else a for a in args]


def minimise_expr(v):
    """Shrink the expression text: try replacing the whole expression by each parenthesised sub-expression."""
    text = v.detail.get('text')
    if not text:
        return None
    g = dec(v.detail['globals'], {'host_fn_b': gv.host_fn_b})
    best = v
    improved = True
    budget = 300
    while improved and budget > 0:
        improved = False
        depth, starts, subs = 0, [], []
        for i, ch in enumerate(text):
            if ch == '(':
                starts.append(i)
            elif ch == ')' and starts:
                s = starts.pop()
                subs.append(text[s:i + 1])
        for sub in sorted(set(subs), key=len):
            if len(sub) >= len(text):
                continue
            budget -= 1
            try:
                impl.bs.parse_expression(sub)
                check_adv_expression(sub, g)
            except Violation as e:
                if e.bucket == best.bucket:
                    text, best, improved = sub, e, True
                    break
            except Exception:  # pylint: disable=broad-except
                continue
    return best


def replay(detail):
    fns = {'host_fn_a': gv.host_fn_a, 'host_fn_b': gv.host_fn_b, 'host_cmp': c12.host_cmp, 'host_pred': c12.host_pred}
    k = detail.get('kind')
    if k == 'data-expression':
        check_data_expression_failures(detail['helper'], detail['variables'], detail['debug'], detail['failing'])
    elif k == 'odd-wrong':
        from pbt.checks import c15
        c15.check_odd_wrong(detail['fn'], detail['pos'], detail['odd'])
    elif k == 'expr':
        check_adv_expression(detail['text'], dec(detail['globals'], fns))
    elif k == 'call':
        check_library_call(detail['fn'], dec(detail['args'], fns))
    elif k == 'recursion':
        check_recursion(detail['shape'], detail['use'], detail['n'], detail['debug'], detail['via_expression'])
    elif k == 'host':
        check_host_failures(detail['kinds'], detail['in_function'], detail['nested'], detail['debug'], detail.get('log_mode', 'fn'), detail.get('with_include', False))
    elif k == 'fetch':
        check_fetch([tuple(x) for x in detail['items']], detail['as_objects'], detail['debug'], detail['with_url_fn'])
    elif k == 'result':
        check_result_operators(detail['call'], detail['globals'], detail['use'], detail['pick'], detail['debug'])
    else:
        check_program(detail['source'], dec(detail['globals'], fns))
