"""C16 - datetime construction, arithmetic and ISO text are correct in any time zone."""
import datetime
import os
import random
import re
import time
from zoneinfo import ZoneInfo

from hypothesis import strategies as st

from pbt.common import impl
from pbt.common.core import Violation, digest, run_hypothesis

ID = 'C16'
LEVEL = 'exploration'
ZONES = ['UTC', 'America/New_York', 'Europe/London', 'Asia/Kolkata', 'Asia/Kathmandu', 'Australia/Lord_Howe', 'Pacific/Chatham', 'Etc/GMT+12']
RULE = ('Seeded cases over the 8 process time zones %s (switched in-process with TZ + tzset): (a) datetimeNew(year 100-9000, month -30..40, day '
        '-10000..10000, hour/minute/second/millisecond within +-5000, given as script literals) against datetime(y\', m\', 1) + timedelta(...) '
        'with (y\', m\') from integer division of the month count, and the seven getters; (b) (d + n) - d == n for integral |n| <= 1e12; (c) for '
        'local datetimes that exist in the zone with a whole-minute offset (decided with zoneinfo; half of them within 2 h of a zone transition '
        'found by scanning zoneinfo): datetimeISOFormat(d) has the ISO shape, denotes the same instant as d in that zone, and '
        'datetimeISOParse(datetimeISOFormat(d)) == d to the millisecond; date-only formatting; (d) ISO-like strings: valid ones parse to the '
        'zoneinfo-computed local time, invalid ones (2024-02-30, month 13, hour 25, bad separators, truncated, no offset) parse to null without '
        'a failed-call debug log. Non-trivial: a component out of its natural range, or d within 2 h of a transition, or a zone with a non-hour '
        'offset. Distinct by zone + arguments.') % (', '.join(ZONES),)
RULE += ' Also: valid ISO texts made invalid by one edit a lenient parser forgives (non-ASCII digit, trailing / leading white space or NUL, non-ASCII punctuation, doubled separator); offset changes back to 1900 incl. the last second before the change with a millisecond part (Kolkata 1941-45, Chatham 1946); the same datetimeNew call with -1 and -2 exchanged in one process. Round 5: the instant handed over as a zone-aware datetime with another UTC offset.'
ASSUMPTIONS = ['zoneinfo (the platform tz database) decides which local times exist and which instant they denote',
               'local times that do not exist (spring-forward gap) or whose UTC offset has seconds (pre-standard LMT) are skipped and counted',
               'results outside years 1-9999 must fail (null)']

UTC = datetime.timezone.utc
ISO_SHAPE = re.compile(r'^\d{4}-\d\d-\d\dT\d\d:\d\d:\d\d(\.\d{3})?[+-]\d\d:\d\d$')
_m = {}
_transitions = {}


def set_zone(tz):
    os.environ['TZ'] = tz
    time.tzset()


def models():
    if not _m:
        _m['new'] = impl.bs.parse_script('\n'.join([
            'dd = datetimeNew(a0, a1, a2, a3, a4, a5, a6)',
            'return if(dd == null, null, arrayNew(datetimeYear(dd), datetimeMonth(dd), datetimeDay(dd), datetimeHour(dd), datetimeMinute(dd), '
            'datetimeSecond(dd), datetimeMillisecond(dd), dd))']))
        _m['arith'] = impl.bs.parse_script('ee = dd + nn\nreturn arrayNew(ee, if(ee == null, null, ee - dd), nn + dd)')
        _m['iso'] = impl.bs.parse_script('tt = datetimeISOFormat(dd)\nreturn arrayNew(tt, datetimeISOParse(tt), datetimeISOFormat(dd, true))')
        _m['parse'] = impl.bs.parse_script('return datetimeISOParse(ss)')
    return _m


def literal_script(args):
    """datetimeNew called with literals in source text (every literal is a float)."""
    def lit(n):
        return str(n) if n >= 0 else '(0 - %d)' % -n
    return impl.bs.parse_script('dd = datetimeNew(%s)\nreturn if(dd == null, null, arrayNew(datetimeYear(dd), datetimeMonth(dd), datetimeDay(dd), '
                                'datetimeHour(dd), datetimeMinute(dd), datetimeSecond(dd), datetimeMillisecond(dd), dd))' % ', '.join(lit(a) for a in args))


def ref_datetime_new(y, mo, d, h=0, mi=0, s=0, ms=0):
    total = y * 12 + (mo - 1)
    y2, m2 = divmod(total, 12)
    try:
        return datetime.datetime(y2, m2 + 1, 1) + datetime.timedelta(days=d - 1, hours=h, minutes=mi, seconds=s, milliseconds=ms)
    except (OverflowError, ValueError):
        return None


def check_new(tz, args, literal):
    d = {'kind': 'new', 'tz': tz, 'args': list(args), 'literal': literal}
    set_zone(tz)
    log = []
    if literal:
        out = impl.run_model(literal_script(args), {}, log, debug=True)
    else:
        g = {'a%d' % i: (float(a) if i % 2 else int(a)) for i, a in enumerate(list(args) + [0] * (7 - len(args)))}
        out = impl.run_model(models()['new'], g, log, debug=True)
    if out.kind != 'ok':
        raise Violation('datetimeNew%r: %r' % (tuple(args), out), d, 'new-raises')
    want = ref_datetime_new(*args)
    got = out.value
    if want is None:
        if got is not None:
            raise Violation('datetimeNew%r is outside years 1..9999 but returned %r' % (tuple(args), got), d, 'new-out-of-range')
        return None
    if got is None:
        raise Violation('datetimeNew%r failed (%s); calendar arithmetic gives %s' % (tuple(args), log[:1], want.isoformat()), d, 'new-fails')
    parts = [want.year, want.month, want.day, want.hour, want.minute, want.second, want.microsecond // 1000]
    if [float(x) for x in got[:7]] != [float(x) for x in parts]:
        raise Violation('datetimeNew%r in %s has parts %r, calendar arithmetic gives %r' % (tuple(args), tz, got[:7], parts), d, 'new-parts')
    if not isinstance(got[7], datetime.datetime) or got[7].tzinfo is not None or got[7] != want:
        raise Violation('datetimeNew%r = %r, calendar arithmetic gives %r' % (tuple(args), got[7], want), d, 'new-value')
    return want


def check_arith(tz, dt, n):
    d = {'kind': 'arith', 'tz': tz, 'dt': dt.isoformat(), 'n': n}
    set_zone(tz)
    out = impl.run_model(models()['arith'], {'dd': dt, 'nn': n})
    if out.kind != 'ok':
        raise Violation('datetime arithmetic: %r' % (out,), d, 'arith-raises')
    ee, diff, ee2 = out.value
    try:
        want = dt + datetime.timedelta(milliseconds=n)
    except (OverflowError, ValueError):
        want = None
    if want is None:
        if ee is not None:
            raise Violation('%s + %r is out of range but gives %r' % (dt, n, ee), d, 'arith-out-of-range')
        return False
    if ee != want or ee2 != want:
        raise Violation('%s + %r ms = %r / %r, expected %r' % (dt, n, ee, ee2, want), d, 'arith-add')
    if diff != n:
        raise Violation('(d + %r) - d = %r' % (n, diff), d, 'arith-roundtrip')
    return True


def zone_status(tz, dt):
    """('ok', [candidate UTC instants]) | ('nonexistent',) | ('lmt',)"""
    z = ZoneInfo(tz)
    a0, a1 = dt.replace(tzinfo=z), dt.replace(tzinfo=z, fold=1)
    exists = any(a.astimezone(UTC).astimezone(z).replace(tzinfo=None) == dt for a in (a0, a1))
    if not exists:
        return ('nonexistent',)
    if a0.utcoffset().total_seconds() % 60 or a1.utcoffset().total_seconds() % 60:
        return ('lmt',)
    return ('ok', [a.astimezone(UTC) for a in (a0, a1)])


def check_iso(tz, dt, aware_offset=None):
    """aware_offset (minutes): the host hands the same instant over as a zone-aware datetime with that UTC offset (only a host can supply those)."""
    d = {'kind': 'iso', 'tz': tz, 'dt': dt.isoformat(), 'aware_offset': aware_offset}
    status = zone_status(tz, dt)
    if status[0] != 'ok':
        return status[0]
    set_zone(tz)
    log = []
    dd = dt
    if aware_offset is not None and 2 <= dt.year <= 9998:
        dd = status[1][0].astimezone(datetime.timezone(datetime.timedelta(minutes=aware_offset)))
        status = (status[0], status[1][:1])
    out = impl.run_model(models()['iso'], {'dd': dd}, log, debug=True)
    if out.kind != 'ok' or not isinstance(out.value, list):
        raise Violation('ISO format/parse of %s in %s: %r' % (dt, tz, out), d, 'iso-raises')
    text, back, date_text = out.value
    if log:
        raise Violation('ISO format/parse of %s in %s failed: %r' % (dt, tz, log[:1]), d, 'iso-fails')
    if not isinstance(text, str) or not ISO_SHAPE.match(text):
        raise Violation('datetimeISOFormat(%s) in %s = %r is not ISO-8601 shaped' % (dt, tz, text), d, 'iso-shape')
    inst = datetime.datetime.fromisoformat(text).astimezone(UTC)
    trunc = [c.replace(microsecond=c.microsecond // 1000 * 1000) for c in status[1]]
    if inst not in trunc:
        raise Violation('datetimeISOFormat(%s) in %s = %r denotes %s, the local time denotes %s' % (dt, tz, text, inst.isoformat(), trunc[0].isoformat()), d,
                        'iso-instant')
    dm = dt.replace(microsecond=dt.microsecond // 1000 * 1000)
    if back != dm:
        raise Violation('datetimeISOParse(datetimeISOFormat(%s)) in %s = %r (text %r)' % (dt, tz, back, text), d, 'iso-roundtrip')
    if date_text != '%04d-%02d-%02d' % (dt.year, dt.month, dt.day):
        raise Violation('datetimeISOFormat(%s, true) = %r' % (dt, date_text), d, 'iso-date')
    return 'ok'


INVALID = ['2100-02-29', '1900-02-29', '2300-02-29T10:00:00Z', '2024-02-30', '2023-13-01T00:00:00Z', '2024-01-01T25:00:00Z', '2024/01/01', '2024-01-01T10:20', '2024-01-01T10:20:30', '2024-1-1', 'yesterday',
           '2024-01-01T10:20:30+0100', '2024-01-01 10:20:30Z', '2024-00-10', '2024-01-00', '0000-01-01', '2023-02-29T12:00:00+00:00', '2024-01-01T10:60:00Z',
           '2024-01-01T10:20:61Z', '2024-01-01T10:20:30+25:00', '', ' 2024-01-01', '2024-01-01T10:20:30.1234567Z', '2024-04-31', '2021-02-29T00:00:00.000-05:00',
           '\uff12\uff10\uff12\uff12-\uff10\uff18-\uff12\uff19', '2022-08-29\n', '2022-08-2\uff19', '\u0662\u0660\u0662\u0662-\u0660\u0668-\u0662\u0669', '2022-08-29T15:08:00Z\n',
           '2022-08-2\uff19T15:08:00-04:00', '2022-08-29T15:08:00+0\uff15:30', '2022-08-29\r', '2022-08-29\r\n', '2022-08-29\x00', '\n2022-08-29', '2022-08-29T15:08:00.\u0967\u0968\u0969+00:00',
           '2021-03-04T05:06:07.Z', '2021-03-04T05:06:07.+00:00', '2021-03-04T05:06:07.+05:45', '2021-03-04T05:06:07.-05:00', '2021-03-04T05:06:07..5Z', '2021-03-04T05:06:07,Z', '2021-03-04.']


_DIGIT_LOOKALIKES = [0xFF10, 0x0660, 0x0966, 0x06F0, 0x09E6, 0x1D7CE]      # fullwidth, Arabic-Indic, Devanagari, Extended Arabic-Indic, Bengali, mathematical bold


def gen_invalid_text(rnd):
    """A valid ISO text made invalid by one edit that a lenient parser tends to forgive."""
    text = gen_valid_text(rnd)[0]
    k = rnd.random()
    if k < 0.08 and 'T' in text:
        # a decimal point with no fraction digits behind it
        m = re.match(r'^(.*T\d\d:\d\d:\d\d)(?:\.\d+)?(.*)$', text)
        if m:
            return m.group(1) + '.' + m.group(2), 'empty-fraction'
    if k < 0.4:
        pos = rnd.choice([i for i, c in enumerate(text) if c.isdigit()])
        return text[:pos] + chr(rnd.choice(_DIGIT_LOOKALIKES) + int(text[pos])) + text[pos + 1:], 'non-ascii-digit'
    if k < 0.65:
        return text + rnd.choice(['\n', '\r', '\r\n', ' ', '\t', '\x00', '\n\n', '\x0b', '\u2028']), 'trailing-character'
    if k < 0.75:
        return rnd.choice(['\n', ' ', '\t', '\ufeff']) + text, 'leading-character'
    if k < 0.9:
        pos = rnd.choice([i for i, c in enumerate(text) if c in '-:+'])
        return text[:pos] + {'-': '\u2013', ':': '\uff1a', '+': '\uff0b'}[text[pos]] + text[pos + 1:], 'non-ascii-punctuation'
    pos = rnd.choice([i for i, c in enumerate(text) if c in '-:'])
    return text[:pos] + text[pos] + text[pos:], 'doubled-separator'


def gen_valid_text(rnd):
    y, mo, dd = rnd.randint(1900, 2100), rnd.randint(1, 12), rnd.randint(1, 28)
    if rnd.random() < 0.25:
        return '%04d-%02d-%02d' % (y, mo, dd), datetime.datetime(y, mo, dd), None
    h, mi, s = rnd.randint(0, 23), rnd.randint(0, 59), rnd.randint(0, 59)
    frac = rnd.choice(['', '.5', '.25', '.123', '.999999', '.000001', '.1000'])
    off = rnd.choice(['Z', '+00:00', '-05:00', '+05:45', '+13:45', '-12:00', '+10:30', '+01:00'])
    text = '%04d-%02d-%02dT%02d:%02d:%02d%s%s' % (y, mo, dd, h, mi, s, frac, off)
    aware = datetime.datetime.fromisoformat(text.replace('Z', '+00:00'))
    return text, None, aware


def check_parse(tz, text, naive_expected, aware):
    d = {'kind': 'parse', 'tz': tz, 'text': text, 'valid': naive_expected is not None or aware is not None}
    set_zone(tz)
    log = []
    out = impl.run_model(models()['parse'], {'ss': text}, log, debug=True)
    if out.kind != 'ok':
        raise Violation('datetimeISOParse(%r): %r' % (text, out), d, 'parse-raises')
    if naive_expected is None and aware is None:
        if log:
            raise Violation('datetimeISOParse(%r) failed instead of returning null: %r' % (text, log[:1]), d, 'parse-invalid-fails')
        if out.value is not None:
            raise Violation('datetimeISOParse(%r) = %r, expected null' % (text, out.value), d, 'parse-invalid-value')
        return
    if aware is not None:
        local = aware.astimezone(ZoneInfo(tz)).replace(tzinfo=None)
        naive_expected = local.replace(microsecond=local.microsecond // 1000 * 1000)
        if zone_status(tz, local.replace(microsecond=0))[0] == 'lmt':
            return
    if out.value != naive_expected or log:
        raise Violation('datetimeISOParse(%r) in %s = %r, expected %r %r' % (text, tz, out.value, naive_expected, log[:1]), d, 'parse-valid-value')


def transitions(tz, year):
    key = (tz, year)
    if key not in _transitions:
        z = ZoneInfo(tz)
        out = []
        prev = None
        day = datetime.datetime(year, 1, 1, 12, tzinfo=UTC)
        for i in range(367):
            t = day + datetime.timedelta(days=i)
            off = t.astimezone(z).utcoffset()
            if prev is not None and off != prev[1]:
                lo, hi = prev[0], t
                while hi - lo > datetime.timedelta(minutes=1):
                    mid = lo + (hi - lo) / 2
                    if mid.astimezone(z).utcoffset() == prev[1]:
                        lo = mid
                    else:
                        hi = mid
                out.append(hi.replace(second=0, microsecond=0))
            prev = (t, off)
        _transitions[key] = out
    return _transitions[key]


def gen_datetime(rnd, tz):
    """(naive local datetime, near_transition)"""
    if rnd.random() < 0.5 and tz not in ('UTC', 'Etc/GMT+12'):
        # (years before 1970 too: negative timestamps; zones whose only offset changes are historical - Kolkata 1941-45, Kathmandu 1986)
        year = rnd.choice([rnd.randint(1975, 2090), rnd.randint(1975, 2090), rnd.randint(1900, 1974), rnd.choice([1941, 1942, 1945, 1946, 1986, 1916, 1918, 1966, 1969])])
        trs = transitions(tz, year)
        if trs:
            t = rnd.choice(trs)
            local = t.astimezone(ZoneInfo(tz)).replace(tzinfo=None)
            delta = datetime.timedelta(minutes=rnd.choice([-121, -90, -61, -60, -59, -31, -30, -29, -1, 0, 1, 29, 30, 31, 59, 60, 61, 90, 119]),
                                       seconds=rnd.choice([0, 0, 30, 59]), microseconds=rnd.choice([0, 1000, 999000, 123456]))
            if rnd.random() < 0.3:
                # the last second before the change (also one offset change earlier on the wall clock), with a millisecond part
                delta = datetime.timedelta(minutes=rnd.choice([0, -30, -60, -15, -45]), milliseconds=-rnd.randint(1, 999))
            return local + delta, True
    y = rnd.choice([rnd.randint(100, 9000), rnd.randint(1900, 2100), rnd.randint(1900, 2100)])
    return datetime.datetime(y, rnd.randint(1, 12), rnd.randint(1, 28), rnd.randint(0, 23), rnd.randint(0, 59), rnd.randint(0, 59),
                             rnd.choice([0, 500000, 999999, 1000, 123000])), False


def gen_boundary_args(rnd):
    """Every component in its natural range except (at most) one, which sits on or just across its boundary."""
    args = [rnd.choice([2023, 2024, 100, 9000, 1999]), rnd.randint(1, 12), rnd.randint(1, 28), rnd.randint(0, 23), rnd.randint(0, 59), rnd.randint(0, 59), rnd.randint(0, 999)]
    pos = rnd.randint(1, 6)
    args[pos] = rnd.choice({1: [0, 1, 12, 13, -1], 2: [0, 1, 28, 29, 30, 31, 32, -1], 3: [-1, 0, 23, 24, 25], 4: [-1, 0, 59, 60, 61], 5: [-1, 0, 59, 60, 61],
                            6: [-1, 0, 999, 1000, 1001, 2000]}[pos])
    return args[:rnd.choice([7, 7, 7, 6, 5, 4, 3]) if pos < 6 else 7] if pos < 3 or rnd.random() < 0.8 else args


def gen_new_args(rnd):
    y = rnd.choice([rnd.randint(100, 9000), rnd.randint(1900, 2100), 100, 9000, 2024, 2023])
    mo = rnd.choice([rnd.randint(-30, 40), rnd.randint(1, 12), 0, 13, 12, 1, -11, 24])
    d = rnd.choice([rnd.randint(-10000, 10000), rnd.randint(1, 28), rnd.randint(-400, 800), 0, 29, 30, 31, 32, 366, 367, 400, -1, 10000, -10000])
    n = rnd.choice([3, 3, 4, 5, 6, 7, 7, 7])
    rest = [rnd.choice([rnd.randint(-5000, 5000), rnd.randint(0, 59), 0, 24, 60, 1000, -1, -2, 50]) for _ in range(n - 3)]
    return [y, mo, d] + rest


def plan(tier):
    k = 12 if tier == 'quick' else 16
    # the first 8 shards keep ONE zone for the whole worker process (state cached per process cannot hide behind zone switching);
    # the others switch zones per case
    return [{'kind': 'mixed', 'n': 3000 if tier == 'quick' else 50000, 'k': i, 'zone': ZONES[i] if i < 8 else None} for i in range(k)] + [{'kind': 'invalid'}]


def run_shard(ctx, spec):
    if spec['kind'] == 'invalid':
        for tz in ZONES:
            for text in INVALID:
                try:
                    check_parse(tz, text, None, None)
                except Violation as v:
                    ctx.violation(v)
                ctx.case(digest(tz + text), True, ['invalid-iso-text'], {'tz': tz, 'text': text})
        return

    def prop(seed):
        rnd = random.Random(seed)
        tz = rnd.choice(ZONES)
        if spec.get('zone'):
            tz = spec['zone']
        family = rnd.choice(['new', 'new', 'new', 'new', 'arith', 'arith', 'iso', 'iso', 'iso', 'iso', 'parse', 'parse', 'parse-invalid'])
        nonhour = tz in ('Asia/Kolkata', 'Asia/Kathmandu', 'Australia/Lord_Howe', 'Pacific/Chatham')
        if family == 'new':
            args = gen_new_args(rnd) if rnd.random() < 0.7 else gen_boundary_args(rnd)
            literal = rnd.random() < 0.5
            want = check_new(tz, args, literal)
            if any(a in (-1, -2) for a in args[1:]):
                # the same call with -1 and -2 exchanged, in the same process (hash(-1) == hash(-2) in CPython: a table keyed by a hash of the
                # arguments confuses the two)
                check_new(tz, [(-3 - a) if a in (-1, -2) and i > 0 else a for i, a in enumerate(args)], literal)
            natural = (1 <= args[1] <= 12 and 1 <= args[2] <= 28 and all(0 <= a < lim for a, lim in zip(args[3:], (24, 60, 60, 1000))))
            ctx.case(digest([tz, args, literal]), not natural, ['new', 'new:' + ('ok' if want else 'null'), 'literal' if literal else 'host-numbers'], {'tz': tz, 'args': args})
        elif family == 'arith':
            dt, near = gen_datetime(rnd, tz)
            n = rnd.choice([rnd.randint(-10 ** 12, 10 ** 12), rnd.randint(-10 ** 6, 10 ** 6), 0, 1, -1, 86400000, 3600000, float(rnd.randint(-10 ** 9, 10 ** 9))])
            ok = check_arith(tz, dt, n)
            ctx.case(digest([tz, dt.isoformat(), n]), near or nonhour or abs(n) > 10 ** 9, ['arith', 'arith:' + ('ok' if ok else 'out-of-range')], {'tz': tz, 'd': dt.isoformat(), 'n': n})
        elif family == 'iso':
            dt, near = gen_datetime(rnd, tz)
            if near and rnd.random() < 0.5:
                # several times of the same calendar day (both sides of a transition), formatted one after another
                for hour in rnd.sample(range(24), 4):
                    check_iso(tz, dt.replace(hour=hour))
            res = check_iso(tz, dt, rnd.choice([None, None, 0, 330, -480, 60, -1]) if rnd.random() < 0.5 else None)
            if res != 'ok':
                ctx.discard('iso-' + res)
                return
            ctx.case(digest([tz, dt.isoformat()]), near or nonhour, ['iso', 'near-transition' if near else 'ordinary', 'zone:' + tz], {'tz': tz, 'd': dt.isoformat()})
        elif family == 'parse-invalid':
            text, how = gen_invalid_text(rnd)
            check_parse(tz, text, None, None)
            ctx.case(digest([tz, text]), True, ['parse-invalid', 'invalid:' + how], {'tz': tz, 'text': text})
        else:
            text, naive, aware = gen_valid_text(rnd)
            check_parse(tz, text, naive, aware)
            ctx.case(digest([tz, text]), nonhour or '.' in text, ['parse-valid'], {'tz': tz, 'text': text})
    try:
        run_hypothesis(ctx, prop, [st.integers(0, 2 ** 32 - 1)], spec['n'], salt=spec['k'], rounds=4)
    finally:
        set_zone('UTC')


def replay(detail):
    k = detail['kind']
    try:
        if k == 'new':
            check_new(detail['tz'], detail['args'], detail.get('literal', True))
        elif k == 'arith':
            check_arith(detail['tz'], datetime.datetime.fromisoformat(detail['dt']), detail['n'])
        elif k == 'iso':
            check_iso(detail['tz'], datetime.datetime.fromisoformat(detail['dt']), detail.get('aware_offset'))
        else:
            text = detail['text']
            if detail.get('valid'):
                if 'T' in text:
                    check_parse(detail['tz'], text, None, datetime.datetime.fromisoformat(text.replace('Z', '+00:00')))
                else:
                    check_parse(detail['tz'], text, datetime.datetime.fromisoformat(text), None)
            else:
                check_parse(detail['tz'], text, None, None)
    finally:
        set_zone('UTC')
