"""C03 - expression evaluation follows the typed operator semantics."""
import copy
import datetime
import itertools
import math
import random
import re

from hypothesis import strategies as st

from pbt.common import impl
from pbt.common.core import Violation, dec, digest, enc, run_hypothesis
from pbt.gen import exprs as ge
from pbt.gen import values as gv
from pbt.refsem import interp
from pbt.refsem.values import is_number, ref_type, values_equal

ID = 'C03'
LEVEL = 'exploration'
RULE = ('(a) every cell of the operator x type x type matrix: 14 binary operators x 27^2 representative operands (three values of each of the '
        'nine types) and 2 unary x 27, through evaluate_expression and through a script; (b) seeded, type-directed expression trees to depth '
        '6 over literals, variables of every value type held in globals and in locals, probe calls (a host function that logs its tag and '
        'returns its argument), && / || / if() nests, evaluated through evaluate_expression(parse_expression(text)) and as `return <expr>`; '
        '(c) every documented spreadsheet alias with generated arguments in expression mode against its library function in a script. Oracle: '
        'independent typed evaluator (value equality with 1e-12 relative tolerance, probe sequence exact). Non-trivial: (a) operand types '
        'differ or the operator is not defined for them; (b) >= 3 operators, >= 2 operand types and >= 1 probe; (c) the call succeeded. '
        'Distinct by expression text + operand values.')
RULE += ' Also: (d) datetime +- milliseconds and datetime - datetime over years 1-9999 (offset = distance to a second in-range datetime); (e) 9 call forms x 4 routes in which an argument re-binds or first defines the called name (the name is looked up after the arguments); variables spelled null / true / false (the literal wins); calls to spreadsheet aliases with builtins off.'
RULE += ' Round 7: plus-signed literals; a left operand that re-binds (systemGlobalSet) the global the right operand reads; an exhaustive numeric family - the six arithmetic operators over 32 x 32 special numbers (both zeros, +-infinity, 5e-324, 1e308, 2**53, host integers) by variables and by literal text, expression and script, against IEEE double / exact integer arithmetic (results the statement leaves open are skipped and counted).'
RULE += ' Round 8: chains of 3-5 terms under operators of one precedence level (string building first) over operands that include values without a string form (NaN / infinity inside a container, a container that contains itself) and probes: the value and the probe order of the whole expression must equal those of evaluating it one operator at a time with the intermediate result held in a variable; containers nested 250-300 levels deep in the operand matrix.'
ASSUMPTIONS = [
    'a boolean is not a number (value_type, comparison and validation all treat it as a separate type): arithmetic on booleans yields null',
    'x/0, x%0, % with a negative operand, 0**-1, negative**fractional and overflow are indeterminate: the case is discarded for the '
    'differential comparison (containment of those is C05)',
    'datetimes are compared as local wall-clock times in the process time zone (shards run under UTC, America/New_York and Asia/Kolkata)',
]

TZ5 = gv.TZ_PLUS5
POOL = {
    'null': [None],
    'boolean': [True, False],
    'number': [0.0, 1.5, -2.0, 3, 1e15],
    'string': ['', 'a', '10'],
    'datetime': [datetime.datetime(2020, 1, 1), datetime.date(2020, 1, 2), datetime.datetime(2020, 1, 1, 5, 0, 0, 250000, tzinfo=TZ5)],
    'array': [[], [2.0], [1.0, 1.0], ['a', 2.0], gv._deep(250, 1.0, list), gv._deep(250, 2.0, list)],     # (two of them nested 250 levels deep)
    'object': [{}, {'a': 1.0}, {'a': 1.0, 'b': [1.0]}, gv._deep(300, 'x', dict)],
    'function': [gv.host_fn_a, gv.host_fn_b, len],
    'regex': list(gv.REGEXES),
}
MATRIX = [v for t in ('null', 'boolean', 'number', 'string', 'datetime', 'array', 'object', 'function', 'regex') for v in POOL[t]]
UNDEFINED_FOR = {'*', '/', '%', '**', '-', '+'}


def probe_impl(log):
    def probe(args, options):
        log.append(('probe', args[0] if args else None))
        return args[1] if len(args) > 1 else None
    return probe


def probe_ref(args, ref):
    ref.log.append(('probe', args[0] if args else None))
    return args[1] if len(args) > 1 else None


def same(a, b):
    return values_equal(a, b, same_function=lambda x, y: x is y)


def _detail(text, globals_, locals_):
    return {'kind': 'expr', 'text': text, 'globals': enc({k: v for k, v in globals_.items() if k != 'probe'}), 'locals': enc(locals_)}


def check_expression(tree, text, globals_, locals_, script_too=True):
    """Evaluate text with the given variables by every route and compare with the reference evaluation of tree."""
    d = _detail(text, globals_, locals_)
    # reference
    rlog = []
    rg = dict(globals_)
    rg.pop('probe', None)
    ref = interp.Ref(rg, rlog, host={'probe': probe_ref}, library=True)
    try:
        expected = ('ok', ref.ev(tree, dict(locals_) if locals_ is not None else None))
    except interp.Indeterminate:
        expected = None
    except interp.RefRuntimeError as e:
        expected = ('runtime-error', e.kind)
    # implementation, expression route
    results = []
    try:
        model = impl.bs.parse_expression(text)
    except impl.bs.ParserError as e:
        raise Violation('generated expression %r does not parse: %s' % (text, e.error), d, 'parse') from e
    except Exception as e:  # pylint: disable=broad-except
        raise Violation('parse_expression(%r) raised %s' % (text, type(e).__name__), d, 'parse-host-exception') from e
    ilog = []
    ig = dict(globals_)
    ig['probe'] = probe_impl(ilog)
    ig.update((k, f) for k, f in impl.bs.SCRIPT_FUNCTIONS.items() if k not in ig)     # what execute_script does for a script
    il = dict(locals_) if locals_ is not None else None
    try:
        results.append(('expression', ('ok', impl.bs.evaluate_expression(model, {'globals': ig}, il, False)), ilog))
    except impl.bs.RuntimeError as e:
        results.append(('expression', ('runtime-error', 'undefined-function' if 'Undefined function' in str(e) else str(e)), ilog))
    except Exception as e:  # pylint: disable=broad-except
        results.append(('expression', ('host-exception', type(e).__name__), ilog))
    if script_too and locals_ is None:
        slog = []
        sg = dict(globals_)
        sg['probe'] = probe_impl(slog)
        out = impl.run_source('return ' + text, sg)
        if out.kind == 'ok':
            results.append(('script', ('ok', out.value), slog))
        elif out.kind == 'runtime-error':
            results.append(('script', ('runtime-error', 'undefined-function' if 'Undefined function' in out.message else out.message), slog))
        else:
            results.append(('script', ('host-exception', out.message), slog))
    if expected is None:
        return None, ref.events
    for route, got, log in results:
        if got[0] != expected[0]:
            raise Violation('%s route: %r -> %s %r, expected %s %r' % (route, text, got[0], got[1], expected[0], expected[1]), d, 'outcome')
        if got[0] == 'ok' and not same(got[1], expected[1]):
            raise Violation('%s route: %r = %r, the typed operator semantics give %r' % (route, text, got[1], expected[1]), d, 'value')
        if log != rlog and expected[0] == 'ok':
            raise Violation('%s route: %r evaluated sub-expressions as %r, expected order %r' % (route, text, log, rlog), d, 'evaluation-order')
    return expected, ref.events


# ---- (b) type-directed generator ---------------------------------------------------------------------------------

VAR_VALUES = {
    'n': [0.0, 1.0, 2.0, 3.0, -1.0, 0.5, 2.5, 10.0, 4, 0, 7, 1e15, -0.5, 100.0],
    's': ['', 'a', 'b', '10', 'ab', 'A b', '2.50'],
    'b': [True, False],
    'z': [None],
    'd': POOL['datetime'] + [datetime.datetime(2019, 12, 31, 23, 59, 59, 999000)],
    'a': [[], [1.0, 2.0], ['a'], [[1.0], {'k': None}]],
    'o': [{}, {'k': 1.0}, {'b': 'x', 'a': [1.0]}],
    'f': [gv.host_fn_b],
    'r': [gv.REGEXES[0]],
}


class ExprGen:
    def __init__(self, rnd, var_types):
        self.r = rnd
        self.vt = var_types           # name -> type letter
        self.nprobe = 0
        self.nops = 0

    def var(self, letters):
        names = [n for n, t in self.vt.items() if t in letters]
        return ('var', self.r.choice(names)) if names else None

    def probe(self, e):
        self.nprobe += 1
        tag = 'p%d' % self.nprobe
        return ('call', 'probe', [('str', "'%s'" % tag, tag), e])

    def maybe_probe(self, e):
        return self.probe(e) if self.r.random() < 0.2 else e

    def num(self, d):
        r = self.r
        k = r.random()
        if d <= 0 or k < 0.3:
            v = self.var('n')
            if v and r.random() < 0.6:
                return v
            t = r.choice(['0', '1', '2', '3', '7', '0.5', '2.5', '10', '1e+3', '12.', '100', '+2', '+0.5', '+1e+1'])
            return ('num', t, float(t))
        self.nops += 1
        if r.random() < 0.012 and any(len(n) >= 2 for n in self.vt):
            # a call of a name that is bound to a value which is not a function (0, '', false, [], {} included): the arguments are evaluated, the
            # call fails and yields null
            return ('call', r.choice(sorted(n for n in self.vt if len(n) >= 2)), [self.num(d - 1) for _ in range(r.randint(0, 2))])       # (one-character names cannot be called)
        if r.random() < 0.012:
            # a spreadsheet-style alias (abs, max, len ...): these exist for evaluate_expression with builtins only - in a script, and with
            # builtins off, the name is undefined wherever the call stands (an if / while condition is no exception)
            return ('call', r.choice(['abs', 'max', 'min', 'len', 'round', 'floor', 'ceil', 'sqrt', 'text', 'date']), [self.num(d - 1)])
        if r.random() < 0.02:
            # the left operand re-binds the global that the right operand reads: operands are evaluated left to right, so the right
            # operand sees the new binding (unless a local of that name hides the global)
            names = sorted(n for n, t in self.vt.items() if t == 'n' and not re.fullmatch(r'(c|ix)\d+', n))
            if names:
                name = r.choice(names)
                setter = ('call', 'systemGlobalSet', [('str', ge.quote_single(name), name), self.num(d - 1)])
                return ('bin', r.choice(['+', '-', '*', '&&', '||']), setter, ('var', name))
        if k < 0.55:
            return self.maybe_probe(('bin', r.choice(['+', '-', '*']), self.num(d - 1), self.num(d - 1)))
        if k < 0.62:
            t = r.choice(['2', '3', '7', '0.5'])
            return ('bin', r.choice(['/', '%']), ('call', 'mathAbs', [self.num(d - 1)]) if r.random() < 0.5 else self.num(d - 1), ('num', t, float(t)))
        if k < 0.66:
            t = r.choice(['0', '1', '2', '3'])
            return ('bin', '**', self.num(d - 1), ('num', t, float(t)))
        if k < 0.72:
            return ('unary', '-', self.num(d - 1))
        if k < 0.78:
            return ('group', self.num(d - 1))
        if k < 0.84:
            extra = [self.probe(self.num(0)) for _ in range(r.choice([0, 0, 0, 0, 1, 2]))]       # surplus arguments of if() are never evaluated
            return ('call', 'if', ([self.boolean(d - 1), self.num(d - 1), self.num(d - 1)] + extra)[:r.choice([3, 3, 2, 5, 5])])
        if k < 0.88 and self.var('d'):
            return ('bin', '-', self.var('d'), self.var('d'))
        # lengths are host ints; adding a literal makes them floats, so that products computed in generated loops saturate to
        # infinity instead of growing without bound as arbitrary-precision integers
        if k < 0.92:
            return ('bin', '+', ('call', 'stringLength', [self.string(d - 1)]), ('num', '0', 0.0))
        if k < 0.96 and self.var('a'):
            return ('bin', '+', ('call', 'arrayLength', [self.var('a')]), ('num', '0', 0.0))
        return self.probe(self.num(d - 1))

    def string(self, d):
        r = self.r
        k = r.random()
        if d <= 0 or k < 0.35:
            v = self.var('s')
            if v and r.random() < 0.6:
                return v
            s = r.choice(['', 'a', 'x y', '1', "it's", 'fill: #fff', ':#', 'k: # v', 'a:', '#', 'x # y:', ': '])       # (a colon, a comment sign: not the end of a block header)
            return ('str', ge.quote_single(s), s)
        self.nops += 1
        if k < 0.6:
            return ('bin', '+', self.string(d - 1), self.any(d - 1))
        if k < 0.8:
            return ('bin', '+', self.any(d - 1), self.string(d - 1))
        if k < 0.9:
            return ('call', 'if', [self.boolean(d - 1), self.string(d - 1), self.string(d - 1)])
        return self.probe(self.string(d - 1))

    def boolean(self, d):
        r = self.r
        k = r.random()
        if d <= 0 or k < 0.15:
            v = self.var('b')
            return v if v and r.random() < 0.7 else ('var', r.choice(['true', 'false']))
        self.nops += 1
        if k < 0.55:
            same_type = r.choice([self.num, self.num, self.string, self.any])
            return self.maybe_probe(('bin', r.choice(['<', '<=', '>', '>=', '==', '!=']), same_type(d - 1), same_type(d - 1)))
        if k < 0.7:
            return ('unary', '!', self.any(d - 1))
        if k < 0.85:
            return ('bin', r.choice(['&&', '||']), self.boolean(d - 1), self.boolean(d - 1))
        return ('group', self.boolean(d - 1))

    def any(self, d):
        r = self.r
        k = r.random()
        if k < 0.3:
            return self.num(d)
        if k < 0.45:
            return self.string(d)
        if k < 0.55:
            return self.boolean(d)
        if d <= 0 or k < 0.7:
            v = self.var('nsbzdaofr?')
            return v if v else ('var', 'null')
        self.nops += 1
        if k < 0.84:
            return self.maybe_probe(('bin', r.choice(['&&', '||']), self.maybe_probe(self.any(d - 1)), self.maybe_probe(self.any(d - 1))))
        if k < 0.9:
            args = [self.maybe_probe(self.any(d - 1)) for _ in range(r.choice([0, 1, 2, 3, 3, 3, 4]))]
            return ('call', 'if', args)
        if k < 0.94 and self.var('d'):
            return ('bin', '+', self.var('d'), self.num(d - 1)) if r.random() < 0.5 else ('bin', '+', self.num(d - 1), self.var('d'))
        # the wild cell: any operator on any operands (mostly null)
        return ('bin', r.choice(ge.BINARY_OPS), self.any(d - 1), self.any(d - 1))


def gen_case(rnd, size):
    letters = 'nnnssbzdaofr'
    var_types = {'v%d' % i: rnd.choice(letters) for i in range(rnd.randint(2, 7))}
    values = {n: copy.deepcopy(rnd.choice(VAR_VALUES[t])) if t not in 'fr' else rnd.choice(VAR_VALUES[t]) for n, t in var_types.items()}
    g = ExprGen(rnd, var_types)
    tree = rnd.choice([g.any, g.any, g.num, g.string, g.boolean])(min(size, 6))
    toks, _ = ge.print_tree(tree, rnd, 0.1)
    text = ge.join_tokens(toks, rnd if rnd.random() < 0.5 else None)
    use_locals = rnd.random() < 0.4
    if use_locals:
        names = sorted(values)
        split = set(rnd.sample(names, rnd.randint(0, len(names))))
        locals_ = {n: values[n] for n in names if n in split}
        globals_ = {n: values[n] for n in names if n not in split}
        # a local shadows a global of the same name
        if names and rnd.random() < 0.5:
            n = rnd.choice(names)
            if n in locals_:
                globals_[n] = 'shadowed-global'
    else:
        locals_, globals_ = None, dict(values)
    if rnd.random() < 0.15:
        # variables that carry the spelling of a literal: null, true and false in an expression are the literals, whatever is bound to those names
        for name in rnd.sample(['true', 'false', 'null'], rnd.randint(1, 3)):
            target = locals_ if (locals_ is not None and rnd.random() < 0.6) else globals_
            target[name] = rnd.choice([0.0, 'x', 5.0, False, True, None, [1.0]])
    return tree, text, globals_, locals_, g, var_types


def count_types(var_types, text):
    return len({t for n, t in var_types.items() if re.search(r'\b%s\b' % n, text)} | ({'lit-num'} if re.search(r'(?<![\w.])\d', text) else set())
               | ({'lit-str'} if "'" in text else set()))


# ---- (b2) the called name is looked up when the call happens: after its arguments were evaluated ------------------------------------

CALLEE_FORMS = [
    # (expression, expected value, names bound afterwards) - swap() re-binds pick to the new function and returns 'v'; define() binds later for the first time
    ('pick(swap())', 'new:v'),
    ("pick('a') + pick(swap()) + pick('b')", 'old:anew:vnew:b'),
    ('pick(pick(swap()))', 'new:new:v'),
    ("pick(swap(), pick('z'))", 'new:v'),
    ("pick(pick('z'), swap())", 'new:old:z'),
    ('later(define())', 'later:w'),
    ("if(true, pick(swap()), pick('no'))", 'new:v'),
    ("pick(swap()) == 'new:v' && pick('q') == 'new:q'", True),
    ("arrayNew(pick('a'), pick(swap()), pick('c'))", ['old:a', 'new:v', 'new:c']),
]


def check_callee_lookup(ix, route):
    text, want = CALLEE_FORMS[ix]
    d = {'kind': 'callee', 'form': ix, 'text': text, 'route': route}

    def old_pick(args, options):
        return 'old:' + str(args[0])

    def new_pick(args, options):
        return 'new:' + str(args[0])

    def later(args, options):
        return 'later:' + str(args[0])

    def swap(args, options):
        options['globals']['pick'] = new_pick
        return 'v'

    def define(args, options):
        options['globals']['later'] = later
        return 'w'
    g = {'pick': old_pick, 'swap': swap, 'define': define}
    try:
        if route == 'script':
            got = impl.bs.execute_script(impl.bs.parse_script('return ' + text), {'globals': g})
        else:
            g.update((k, f) for k, f in impl.bs.SCRIPT_FUNCTIONS.items() if k not in g)
            got = impl.bs.evaluate_expression(impl.bs.parse_expression(text), {'globals': g}, {'unrelated': 1.0} if route == 'expression-locals' else None,
                                              route == 'expression-builtins')
    except Exception as e:  # pylint: disable=broad-except
        raise Violation('%s route: %r raised %s: %s (a call looks its function up after evaluating the arguments)' % (route, text, type(e).__name__, e), d,
                        'callee-lookup') from e
    if got != want:
        raise Violation('%s route: %r = %r, expected %r (the arguments are evaluated first; the name is looked up when the call happens)' % (route, text, got, want),
                        d, 'callee-lookup')


# ---- (c) aliases --------------------------------------------------------------------------------------------------

NONDETERMINISTIC = {'now': 'datetime', 'today': 'datetime', 'rand': 'number'}


def check_alias(alias, target, args):
    d = {'kind': 'alias', 'alias': alias, 'target': target, 'args': enc(args)}
    names = ['a%d' % i for i in range(len(args))]
    glob = dict(zip(names, copy.deepcopy(args)))
    elog = []
    expr = impl.bs.parse_expression('%s(%s)' % (alias, ', '.join(names)))
    try:
        got = ('ok', impl.bs.evaluate_expression(expr, {'globals': glob, 'logFn': elog.append, 'debug': True}, None, True))
    except Exception as e:  # pylint: disable=broad-except
        got = (type(e).__name__, str(e)[:80])
    # the same call with no options object at all (the documented default): arguments come from the locals
    try:
        got_none = ('ok', impl.bs.evaluate_expression(expr, None, dict(zip(names, copy.deepcopy(args))), True))
    except Exception as e:  # pylint: disable=broad-except
        got_none = (type(e).__name__, str(e)[:80])
    glob2 = dict(zip(names, copy.deepcopy(args)))
    slog = []
    out = impl.run_source('return %s(%s)' % (target, ', '.join(names)), glob2, slog, debug=True)
    want = ('ok', out.value) if out.kind == 'ok' else (type(out.exc).__name__, (out.message or '')[:80])
    if alias not in NONDETERMINISTIC and (got_none[0] != got[0] or (got[0] == 'ok' and not same(got_none[1], got[1]))):
        raise Violation('%s%r evaluates to %r without an options object but to %r with one' % (alias, tuple(args), got_none, got), d, 'alias-no-options:' + alias)
    if alias in NONDETERMINISTIC:
        if got[0] == 'ok' and want[0] == 'ok' and ref_type(got[1]) == ref_type(want[1]) and \
                (got[1] is None) == (want[1] is None):
            return got[1] is not None
        raise Violation('%s(...) and %s(...) behave differently: %r vs %r' % (alias, target, got, want), d, 'alias:' + alias)
    efail = [m.replace('Function "%s" failed' % alias, 'Function "F" failed') for m in elog]
    sfail = [m.replace('Function "%s" failed' % target, 'Function "F" failed') for m in slog]
    if got[0] != want[0] or (got[0] == 'ok' and not same(got[1], want[1])) or efail != sfail:
        raise Violation('expression built-in %s%r = %r %r but library function %s gives %r %r' % (alias, tuple(args), got, elog[:1], target, want, slog[:1]),
                        d, 'alias:' + alias)
    if not all(same(glob[n], glob2[n]) for n in names):
        raise Violation('%s and %s leave their arguments in different states' % (alias, target), d, 'alias-args:' + alias)
    return got[0] == 'ok' and not elog


INF = float('inf')
SPECIAL_NUMBERS = [0.0, -0.0, 0.5, -0.5, 1.0, -1.0, 2.0, -2.0, 3.0, -3.0, 0.25, 1 / 3, -1 / 3, 1e308, -1e308, INF, -INF, 5e-324, float(2 ** 53), 1e15, 1024.0,
                   -1023.0, 0.1, 7, -7, 2, 0, 1, 1.5, -2.5, 1e-300, -1e-300]
_NUM_TEXT = {INF: '(1e+308 * 10)', -INF: '(0 - 1e+308 * 10)'}


def ieee(op, l, r):
    """What IEEE 754 double arithmetic gives for two numbers (exact integer arithmetic for two host integers); 'skip' where the
    statement leaves the result open (division by zero, % outside non-negative operands, 0 ** negative, (+-1) ** +-infinity, overflow
    of the integer/float conversion), None where no real number exists (negative base with a fractional exponent)."""
    try:
        if op == '+':
            return l + r
        if op == '-':
            return l - r
        if op == '*':
            return l * r
        if op == '/':
            return 'skip' if r == 0 else l / r
        if op == '%':
            return 'skip' if r <= 0 or l < 0 or not (math.isfinite(l) and math.isfinite(r)) else math.fmod(l, r)
        if l == 0 and r < 0:
            return 'skip'
        if abs(l) == 1 and not math.isfinite(r):
            return 'skip'
        if l < 0 and math.isfinite(l) and math.isfinite(r) and r != int(r):
            return None
        if isinstance(l, int) and isinstance(r, int) and r >= 0:
            return l ** r
        return math.pow(l, r)
    except (OverflowError, ValueError, ZeroDivisionError):
        return 'skip'


def check_numeric(op, l, r):
    want = ieee(op, l, r)
    if isinstance(want, str):
        return want
    d = {'kind': 'numeric', 'op': op, 'l': enc(l), 'r': enc(r)}

    def lit(v):
        if v in _NUM_TEXT:
            return _NUM_TEXT[v]
        t = repr(v).replace('e-', 'E').replace('e+', 'e').replace('e', 'e+').replace('E', 'e-')
        return '(0 - %s)' % t[1:] if t.startswith('-') else t
    text = '%s %s %s' % (lit(l), op, lit(r))
    routes = [('variables', 'x %s y' % op, {'x': l, 'y': r}), ('literals', text, {})]
    for route, src, g in routes:
        if route == 'literals' and (str(l) == '-0.0' or str(r) == '-0.0'):
            continue
        for how in ('expression', 'script'):
            try:
                if how == 'expression':
                    got = impl.bs.evaluate_expression(impl.bs.parse_expression(src), {'globals': dict(g)})
                else:
                    got = impl.bs.execute_script(impl.bs.parse_script('return ' + src), {'globals': dict(g)})
            except Exception as e:  # pylint: disable=broad-except
                raise Violation('%s (%s, %s) raised %s' % (src, route, how, type(e).__name__), d, 'numeric-raises:' + op) from e
            if want is None:
                ok = got is None
            elif got is None or isinstance(got, bool) or not isinstance(got, (int, float)):
                ok = False
            elif isinstance(want, float) and math.isnan(want):
                ok = isinstance(got, float) and math.isnan(got)
            elif isinstance(got, float) and math.isnan(got):
                ok = False
            else:
                ok = got == want or (math.isfinite(want) and math.isfinite(got) and abs(got - want) <= 1e-12 * abs(want))
            if not ok:
                raise Violation('%s with x=%r y=%r (%s, %s) = %r, double arithmetic gives %r' % (src, l, r, route, how, got, want), d, 'numeric:' + op)
    return want


# ---- chains evaluated whole and step by step ---------------------------------------------------------------------------------------------
CHAIN_VALUES = {'s': 'v=', 'e': '', 'n': 1.0, 'h': 2.5, 'z': None, 't': True, 'arr': [1.0, 'a'], 'obj': {'k': 1.0}, 'd': datetime.datetime(2020, 1, 2, 3, 4, 5),
                'nanarr': '$nan-array', 'infobj': '$inf-object', 'cyc': '$cyclic-array', 'big': 1e308, 'i': 3}
CHAIN_LITERALS = ["'v='", "';'", "''", '1', '0.5', "'x y'", 'null']


def _chain_globals(log):
    g = {}
    for k, v in CHAIN_VALUES.items():
        if v == '$nan-array':
            v = [1.0, float('nan')]
        elif v == '$inf-object':
            v = {'a': float('inf')}
        elif v == '$cyclic-array':
            v = [1.0]
            v.append(v)
        elif isinstance(v, (list, dict)):
            v = copy.deepcopy(v)
        g[k] = v
    g['probe'] = probe_impl(log)
    return g


def _same_nan(a, b):
    if isinstance(a, float) and isinstance(b, float) and math.isnan(a) and math.isnan(b):
        return True
    return type(a) is type(b) and a == b if not isinstance(a, (list, dict)) else a is b or a == b


def check_chain(terms, ops):
    """t0 op t1 op t2 ... (operators of one precedence level, so the chain groups to the left) evaluated as ONE expression must give the value, and call
    the probes in the order, of evaluating it one operator at a time with the intermediate result held in a variable."""
    text = terms[0] + ''.join(' %s %s' % (o, t) for o, t in zip(ops, terms[1:]))
    d = {'kind': 'chain', 'terms': terms, 'ops': ops, 'text': text}
    for how in ('expression', 'script'):
        wlog = []
        g = _chain_globals(wlog)
        try:
            if how == 'expression':
                whole = impl.bs.evaluate_expression(impl.bs.parse_expression(text), {'globals': g})
            else:
                whole = impl.bs.execute_script(impl.bs.parse_script('return ' + text), {'globals': g})
        except Exception as e:  # pylint: disable=broad-except
            raise Violation('%r (%s) raised %s' % (text, how, type(e).__name__), d, 'chain-raises') from e
        slog = []
        g2 = _chain_globals(slog)
        acc = impl.bs.evaluate_expression(impl.bs.parse_expression(terms[0]), {'globals': g2})
        for o, t in zip(ops, terms[1:]):
            g2['acc'] = acc
            acc = impl.bs.evaluate_expression(impl.bs.parse_expression('acc %s %s' % (o, t)), {'globals': g2})
        if not _same_nan(whole, acc):
            raise Violation('%r (%s) = %r, evaluating it one operator at a time gives %r' % (text, how, whole, acc), d, 'chain-value')
        if wlog != slog:
            raise Violation('%r (%s) calls %r, evaluating it one operator at a time calls %r' % (text, how, wlog, slog), d, 'chain-evaluation-order')
    return whole


def gen_chain(rnd):
    n = rnd.randint(3, 5)
    level = rnd.choice([['+', '-'], ['+'], ['+'], ['*', '/'], ['+', '-']])
    names = sorted(CHAIN_VALUES)
    terms = []
    for i in range(n):
        k = rnd.random()
        if i == 0 and k < 0.5:
            t = rnd.choice(CHAIN_LITERALS[:3])          # chains that start with a string literal: string building
        elif k < 0.55:
            t = rnd.choice(names)
        elif k < 0.75:
            t = rnd.choice(CHAIN_LITERALS)
        elif k < 0.9:
            t = "probe('p%d', %s)" % (i, rnd.choice(names + CHAIN_LITERALS))
        else:
            t = '(%s + %s)' % (rnd.choice(names), rnd.choice(names + CHAIN_LITERALS))
        terms.append(t)
    return terms, [rnd.choice(level) for _ in range(n - 1)]


def plan(tier):
    parts = 8 if tier == 'quick' else 16
    specs = [{'kind': 'matrix', 'part': i, 'parts': parts} for i in range(parts)]
    k = 6 if tier == 'quick' else 16
    specs += [{'kind': 'trees', 'n': 6000 if tier == 'quick' else 60000, 'k': i} for i in range(k)]
    specs += [{'kind': 'dtarith', 'n': 3000 if tier == 'quick' else 40000, 'k': i} for i in range(1 if tier == 'quick' else 4)]
    specs += [{'kind': 'numeric'}]
    specs += [{'kind': 'chains', 'n': 4000 if tier == 'quick' else 60000, 'k': i} for i in range(1 if tier == 'quick' else 4)]
    specs += [{'kind': 'aliases', 'n': 4000 if tier == 'quick' else 30000, 'k': i} for i in range(2 if tier == 'quick' else 8)]
    return specs


def run_shard(ctx, spec):
    # aware datetimes (only a host can supply them) denote their instant as LOCAL wall-clock time: two of three shards run in a zone that is not UTC
    import os
    import time
    os.environ['TZ'] = ['UTC', 'America/New_York', 'Asia/Kolkata'][(spec.get('k', 0) + spec.get('part', 0) + (1 if spec['kind'] == 'matrix' else 0)) % 3]
    time.tzset()
    if spec['kind'] == 'matrix':
        cells = [(op, i, j) for op in ge.BINARY_OPS for i in range(len(MATRIX)) for j in range(len(MATRIX))]
        cells += [(op, i, None) for op in ('-', '!') for i in range(len(MATRIX))]
        for ix in range(spec['part'], len(cells), spec['parts']):
            op, i, j = cells[ix]
            x = copy.deepcopy(MATRIX[i]) if not callable(MATRIX[i]) and ref_type(MATRIX[i]) != 'regex' else MATRIX[i]
            if j is None:
                tree, text, g = ('unary', op, ('var', 'x')), '%sx' % op, {'x': x}
                tx, ty = ref_type(x), None
            else:
                y = copy.deepcopy(MATRIX[j]) if not callable(MATRIX[j]) and ref_type(MATRIX[j]) != 'regex' else MATRIX[j]
                tree, text, g = ('bin', op, ('var', 'x'), ('var', 'y')), 'x %s y' % op, {'x': x, 'y': y}
                tx, ty = ref_type(x), ref_type(y)
            try:
                expected, _ = check_expression(tree, text, g, None)
            except Violation as v:
                v.bucket = '%s:%s' % (v.bucket, op)
                ctx.violation(v)
                expected = 'violation'
            if expected is None:
                ctx.discard('indeterminate-arithmetic')
                continue
            ctx.case(digest('m%s,%d,%s' % (op, i, j)), tx != ty or (expected != 'violation' and expected[1] is None),
                     ['matrix:%s' % op, 'cell-null' if expected != 'violation' and expected[1] is None else 'cell-value'],
                     {'text': text, 'x': x, 'y': g.get('y')})
        ctx.exhaustive['operator x %d x %d operand matrix' % (len(MATRIX), len(MATRIX))] = True
        return
    if spec['kind'] == 'numeric':
        for op in ('+', '-', '*', '/', '%', '**'):
            for l in SPECIAL_NUMBERS:
                for r in SPECIAL_NUMBERS:
                    try:
                        want = check_numeric(op, l, r)
                    except Violation as v:
                        ctx.violation(v)
                        want = 0
                    if isinstance(want, str):
                        ctx.discard('numeric-result-left-open')
                        continue
                    finite = math.isfinite(l) and math.isfinite(r)
                    ctx.case(digest(['numeric', op, repr(l), repr(r)]), not finite or want is None or (isinstance(want, float) and not math.isfinite(want)),
                             ['numeric:' + op, 'finite-operands' if finite else 'non-finite-operand'], {'text': 'x %s y' % op, 'x': l, 'y': r})
        ctx.exhaustive['6 arithmetic operators x %d x %d special numbers' % (len(SPECIAL_NUMBERS), len(SPECIAL_NUMBERS))] = True
        return
    if spec['kind'] == 'chains':
        def cprop(seed):
            rnd = random.Random(seed)
            terms, ops = gen_chain(rnd)
            check_chain(terms, ops)
            text = ' '.join(terms)
            ctx.case(digest([terms, ops]), 'probe' in text or any(x in text for x in ('nanarr', 'infobj', 'cyc')),
                     ['chain', 'len=%d' % len(terms), 'unstringifiable-operand' if any(x in text for x in ('nanarr', 'infobj', 'cyc')) else 'plain-operands',
                      'starts-with-string-literal' if terms[0][0] == "'" else 'starts-otherwise'], {'terms': terms, 'ops': ops})
        run_hypothesis(ctx, cprop, [st.integers(0, 2 ** 40)], spec['n'], salt=70 + spec['k'])
        return
    if spec['kind'] == 'trees':
        def prop(seed, size):
            rnd = random.Random(seed)
            tree, text, globals_, locals_, g, var_types = gen_case(rnd, size)
            try:
                expected, events = check_expression(tree, text, globals_, locals_)
            except Violation as v:
                v.detail.update(seed=seed, size=size)
                raise
            if expected is None:
                ctx.discard('indeterminate-arithmetic')
                return
            ntypes = count_types(var_types, text)
            nt = g.nops >= 3 and ntypes >= 2 and g.nprobe >= 1
            ctx.case(digest([text, enc(globals_), enc(locals_)]), nt,
                     ['tree', 'locals' if locals_ is not None else 'globals-only', 'short-circuit-taken' if events['short-circuit'] else 'no-short-circuit',
                      'result:' + (ref_type(expected[1]) if expected[0] == 'ok' else 'error'), 'probes>=1' if g.nprobe else 'probes=0',
                      'has-if()' if re.search(r'\bif\s*\(', text) else 'no-if()'],
                     {'text': text, 'globals': {k: v for k, v in globals_.items()}, 'locals': locals_})
        run_hypothesis(ctx, prop, [st.integers(0, 2 ** 32 - 1), st.integers(1, 6)], spec['n'], salt=spec['k'], minimise=minimise_tree)
        return
    if spec['kind'] == 'dtarith' and spec['k'] == 0:
        for ix in range(len(CALLEE_FORMS)):
            for route in ('script', 'expression', 'expression-locals', 'expression-builtins'):
                try:
                    check_callee_lookup(ix, route)
                except Violation as v:
                    ctx.violation(v)
                ctx.case(digest(['callee', ix, route]), True, ['callee-rebound-by-argument', 'route:' + route], {'text': CALLEE_FORMS[ix][0], 'route': route})
    if spec['kind'] == 'dtarith':
        # datetime arithmetic over the whole datetime range: the offset is the distance to a second in-range datetime (plus a small
        # delta), so the results stay in range right up to both ends of the calendar
        edge = st.sampled_from([datetime.datetime(1, 1, 1), datetime.datetime(9999, 12, 31, 23, 59, 59, 999000), datetime.datetime(1, 1, 2), datetime.datetime(9999, 12, 31),
                                datetime.datetime(4, 12, 31), datetime.datetime(9995, 1, 1), datetime.datetime(1970, 1, 1), datetime.datetime(2020, 1, 1)])
        anydt = st.datetimes(min_value=datetime.datetime(1, 1, 1), max_value=datetime.datetime(9999, 12, 31, 23, 59, 59)).map(
            lambda d: d.replace(microsecond=(d.microsecond // 1000) * 1000))
        dts = st.one_of(edge, anydt, gv.naive_datetimes)
        delta = st.sampled_from([0, 0, 1, -1, 1000, -1000, 0.5, 86400000, -86400000, 31536000000, -31536000000])

        def dprop(d1, d2, dl, form, as_int):
            ms = (d2 - d1) / datetime.timedelta(milliseconds=1) + dl
            ms = int(ms) if as_int and float(ms).is_integer() else float(ms)
            V = lambda n: ('var', n)
            tree, text = [(('bin', '+', V('d'), V('n')), 'd + n'), (('bin', '+', V('n'), V('d')), 'n + d'), (('bin', '-', V('e'), V('d')), 'e - d'),
                          (('bin', '+', V('d'), ('group', ('bin', '-', V('e'), V('d')))), 'd + (e - d)'),
                          (('bin', '==', ('bin', '+', V('d'), ('group', ('bin', '-', V('e'), V('d')))), V('e')), 'd + (e - d) == e'),
                          (('bin', '<', V('d'), V('e')), 'd < e')][form]
            g = {'d': d1, 'e': d2, 'n': ms}
            expected, _ = check_expression(tree, text, g, None)
            if expected is None:
                ctx.discard('indeterminate-arithmetic')
                return
            far = abs(ms) > 3.0e14
            ctx.case(digest(enc([text, g])), d1 != d2, ['dtarith:' + text, 'offset>3e14ms' if far else 'offset<=3e14ms',
                                                        'result:' + (ref_type(expected[1]) if expected[0] == 'ok' else 'error')], {'text': text, 'globals': g})
        run_hypothesis(ctx, dprop, [dts, dts, delta, st.integers(0, 5), st.booleans()], spec['n'], salt=40 + spec['k'])
        return
    # aliases
    from pbt.checks import c12
    aliases = sorted(interp.EXPRESSION_ALIASES.items())

    @st.composite
    def alias_call(draw):
        alias, target = draw(st.sampled_from(aliases))
        _, args = draw(c12.call_strategy([target]))
        return alias, target, args

    def aprop(call):
        alias, target, args = call
        ok = check_alias(alias, target, args)
        ctx.case(digest(enc([alias, args])), ok, ['alias:%s:%s' % (alias, 'ok' if ok else 'failed')], {'alias': alias, 'args': args})
    run_hypothesis(ctx, aprop, [alias_call()], spec['n'], salt=70 + spec['k'])
    # every documented alias must exist and nothing undocumented
    have = set(impl.bs.EXPRESSION_FUNCTIONS)
    if have != set(interp.EXPRESSION_ALIASES):
        ctx.violation(Violation('expression built-ins differ from the documented table: %r' % sorted(have ^ set(interp.EXPRESSION_ALIASES)),
                                {'kind': 'alias-table'}, 'alias-table'))


def minimise_tree(v):
    """Structural minimisation of a failing generated expression: replace sub-trees by their children / a literal."""
    from pbt.checks.c02 import _get, _paths, _rebuild
    if 'seed' not in v.detail:
        return None
    rnd = random.Random(v.detail['seed'])
    tree, text, globals_, locals_, _, _ = gen_case(rnd, v.detail['size'])

    def failure(t):
        toks, _ = ge.print_tree(t)
        try:
            check_expression(t, ge.join_tokens(toks), globals_, locals_)
        except Violation as e:
            return e
        return None
    best = failure(tree)
    if best is None:
        return None
    budget = 1500
    improved = True
    while improved and budget > 0:
        improved = False
        for path in sorted(_paths(tree), key=len):
            node = _get(tree, path)
            cands = []
            if node[0] == 'bin':
                cands = [node[2], node[3]]
            elif node[0] in ('unary', 'group'):
                cands = [node[-1]]
            elif node[0] == 'call':
                cands = [a for a in node[2] if a[0] != 'str' or node[1] != 'probe']
            if node[0] not in ('var', 'num', 'str'):
                cands.append(('num', '1', 1.0))
            for cand in cands:
                budget -= 1
                t2 = _rebuild(tree, path, cand)
                e = failure(t2)
                if e is not None and e.bucket == best.bucket:
                    tree, best, improved = t2, e, True
                    break
            if improved:
                break
    return best


def _parse_to_tree(m):
    k, = m.keys()
    v = m[k]
    if k == 'number':
        return ('num', repr(v), v)
    if k == 'string':
        return ('str', ge.quote_single(v), v)
    if k == 'variable':
        return ('brvar', ge.bracket(v), v) if not re.fullmatch(r'[A-Za-z_]\w*', v) else ('var', v)
    if k == 'group':
        return ('group', _parse_to_tree(v))
    if k == 'unary':
        return ('unary', v['op'], _parse_to_tree(v['expr']))
    if k == 'binary':
        return ('bin', v['op'], _parse_to_tree(v['left']), _parse_to_tree(v['right']))
    return ('call', v['name'], [_parse_to_tree(a) for a in v.get('args', [])])


def replay(detail):
    if detail.get('kind') == 'callee':
        check_callee_lookup(detail['form'], detail['route'])
        return
    if detail.get('kind') == 'chain':
        check_chain(detail['terms'], detail['ops'])
        return
    if detail.get('kind') == 'numeric':
        check_numeric(detail['op'], dec(detail['l']), dec(detail['r']))
        return
    if detail.get('kind') == 'alias':
        check_alias(detail['alias'], detail['target'], dec(detail['args'], {'host_cmp': None}))
        return
    if detail.get('kind') == 'alias-table':
        if set(impl.bs.EXPRESSION_FUNCTIONS) != set(interp.EXPRESSION_ALIASES):
            raise Violation('expression built-ins differ from the documented table', detail, 'alias-table')
        return
    fns = {'host_fn_a': gv.host_fn_a, 'host_fn_b': gv.host_fn_b, 'len': len}
    globals_ = dec(detail['globals'], fns)
    locals_ = dec(detail['locals'], fns) if detail.get('locals') is not None else None
    # the tree is recovered from the text with the implementation's parser (C02 establishes that parse); the reference
    # then evaluates that tree independently
    tree = _parse_to_tree(impl.bs.parse_expression(detail['text']))
    check_expression(tree, detail['text'], globals_, locals_)
