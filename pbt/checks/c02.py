"""C02 - expression text parses to the tree the precedence rules dictate."""
import itertools
import random
import re

from hypothesis import strategies as st

from pbt.common import impl
from pbt.common.core import Violation, digest, run_hypothesis
from pbt.gen import exprs as ge

ID = 'C02'
LEVEL = 'exploration'
RULE = ('(a) every sequence of 1..3 (quick) / 1..4 (thorough) binary operators over the 14 operators, with plain identifier operands and again '
        'with a unary-minus, a unary-not and a parenthesised operand at each position, checked against an independent precedence-climbing '
        'parser; (b) seeded random trees to depth 8 over all literal forms, both quote styles with escapes, identifiers, bracketed names, calls '
        'and groups, printed with minimal or redundant parentheses and random inter-token white space, checked against the tree they were '
        'printed from; (c) token strings (valid trees with one token deleted/inserted/replaced, and pure soups incl. garbage characters) '
        'checked against an independent recursive-descent recogniser: accept iff it accepts, same tree, rejection only by '
        'BareScriptParserError. Non-trivial: chains mixing >= 2 precedence levels; trees of depth >= 3 containing a group or unary; token '
        'strings of >= 3 tokens. Distinct by expression text.')
RULE += ' Also: bracketed names containing `\\\\]` followed by parentheses / quotes, number literals beyond the double range, control characters in string literals, non-ASCII identifiers and call names.'
RULE += ' Round 8: every generated tree is also broken by one small edit that cannot leave an expression (a blank inside a number literal / before or after its exponent letter / inside a two-character operator, an empty argument position): the result must be rejected.'
RULE += ' Round 7: number literals written with an explicit plus sign (+5, +0.5, +1e+3) in operand position.'
ASSUMPTIONS = [
    'generated text avoids sign-prefixed number tokens (+5), white space at the edges inside [brackets] and string literals whose last '
    'character is an unescaped backslash (tokenisation of those is not fixed by the property)',
    'every accepted expression is also validated against the published schema',
]

OPS = ge.BINARY_OPS
PREC = ge.PREC


def climb(operands, ops):
    """Independent precedence climbing over operand models and operator list (all levels left-associative)."""
    pos = [0]

    def parse(minp):
        left = operands[pos[0]]
        while pos[0] < len(ops) and PREC[ops[pos[0]]] >= minp:
            op = ops[pos[0]]
            pos[0] += 1
            right = parse(PREC[op] + 1)
            left = {'binary': {'op': op, 'left': left, 'right': right}}
        return left
    return parse(1)


def impl_parse(text):
    try:
        got = impl.bs.parse_expression(text)
    except impl.bs.ParserError:
        return None, None
    except RecursionError:
        return 'skip', None
    except Exception as e:  # pylint: disable=broad-except
        return 'exc', e
    try:
        impl.bs.validate_expression(got)
    except Exception as e:  # pylint: disable=broad-except
        return 'invalid', e
    return 'ok', got


def check_text(text, expected, kind):
    """expected: the model the text must parse to, or None if it must be rejected."""
    d = {'kind': kind, 'text': text, 'expected': expected}
    status, got = impl_parse(text)
    if status == 'skip':
        return
    if status == 'exc':
        raise Violation('parse_expression(%r) raised %s: %s' % (text, type(got).__name__, got), d, 'host-exception')
    if status == 'invalid':
        raise Violation('parse_expression(%r) returned a model that is not schema-valid: %s' % (text, got), d, 'schema-invalid')
    if expected is None:
        if status == 'ok':
            raise Violation('ill-formed expression %r was accepted as %r' % (text, got), d, 'accepts-ill-formed')
        return
    if status is None:
        raise Violation('well-formed expression %r was rejected' % (text,), d, 'rejects-well-formed')
    if got != expected:
        raise Violation('%r parsed to %r, precedence rules give %r' % (text, got, expected), d, 'wrong-tree:' + kind)
    _check_number_types(got, d)


def _check_number_types(m, d):
    k, = m.keys()
    v = m[k]
    if k == 'number' and not isinstance(v, float):
        raise Violation('number literal parsed to a non-float %r' % (v,), d, 'number-type')
    if k == 'binary':
        _check_number_types(v['left'], d)
        _check_number_types(v['right'], d)
    elif k == 'unary':
        _check_number_types(v['expr'], d)
    elif k == 'group':
        _check_number_types(v, d)
    elif k == 'function':
        for a in v['args']:
            _check_number_types(a, d)


# ---- (a) chains ---------------------------------------------------------------------------------------------------

NAMES = ['a', 'b', 'c', 'd', 'e5']
VARIANTS = {
    'neg': lambda n: (['-', n], {'unary': {'op': '-', 'expr': {'variable': n}}}),
    'not': lambda n: (['!', n], {'unary': {'op': '!', 'expr': {'variable': n}}}),
    'group': lambda n: (['(', n, '+', 'q', '||', 'r', ')'],
                        {'group': {'binary': {'op': '||', 'left': {'binary': {'op': '+', 'left': {'variable': n}, 'right': {'variable': 'q'}}},
                                              'right': {'variable': 'r'}}}}),
}


def chain_cases(ops):
    n = len(ops) + 1
    plain = [([NAMES[i]], {'variable': NAMES[i]}) for i in range(n)]
    yield 'plain', plain
    for pos in range(n):
        for vname, f in VARIANTS.items():
            operands = list(plain)
            operands[pos] = f(NAMES[pos])
            yield '%s@%d' % (vname, pos), operands


def run_chain(ctx, ops, tight):
    levels = len({PREC[o] for o in ops})
    for vname, operands in chain_cases(ops):
        toks = []
        for i, (t, _) in enumerate(operands):
            if i:
                toks.append(ops[i - 1])
            toks += t
        text = (''.join if tight and vname == 'plain' else ' '.join)(toks)
        if tight and vname == 'plain':
            text = _tight(toks)
        expected = climb([m for _, m in operands], list(ops))
        try:
            check_text(text, expected, 'chain')
        except Violation as v:
            ctx.violation(v)
        ctx.case(digest(text), levels >= 2, ['chain-len%d' % len(ops), 'chain-' + vname.split('@')[0]], {'text': text})


def _tight(toks):
    out = [toks[0]]
    for t in toks[1:]:
        out.append('' if not ge._needs_space(out[-1] if out[-1] else ' ', t) else ' ')  # pylint: disable=protected-access
        out.append(t)
    return ''.join(out)


# ---- (c) token strings and the independent recogniser -------------------------------------------------------------

class Reject(Exception):
    pass


def rand_token(rnd):
    k = rnd.random()
    if k < 0.16:
        t = rnd.choice(ge.NUMBER_TEXTS + ge.OVERFLOW_NUMBER_TEXTS[:2])
        return ('num', t, float(t))
    if k < 0.26:
        v = rnd.choice(ge.STRING_VALUES)
        return ('str', ge.quote_single(v) if rnd.random() < 0.6 else ge.quote_double(v), v)
    if k < 0.42:
        return ('id', rnd.choice(ge.IDENTS + ['foo', 'if', 'max']))
    if k < 0.46:
        n = rnd.choice(ge.BRACKET_NAMES)
        return ('br', ge.bracket(n), n)
    if k < 0.68:
        return ('op', rnd.choice(OPS))
    if k < 0.73:
        return ('!',)
    if k < 0.83:
        return ('(',)
    if k < 0.93:
        return (')',)
    if k < 0.97:
        return (',',)
    # (no quote or bracket characters: a stray ' " [ or ] would fuse with later tokens into a string literal / bracketed name, so the
    # token list would no longer be the tokenisation of the text)
    return ('junk', rnd.choice(['@', '$', '#', '?', ';', ':', '~', '`', '=', '&', '|', '.', '\\', '{', '}', '^']))


def recognise(toks):
    pos = [0]

    def peek():
        return toks[pos[0]] if pos[0] < len(toks) else None

    def unary():
        t = peek()
        if t is None:
            raise Reject()
        if t[0] == '(':
            pos[0] += 1
            e = binary(1)
            if peek() is None or peek()[0] != ')':
                raise Reject()
            pos[0] += 1
            return {'group': e}
        if t[0] == '!' or (t[0] == 'op' and t[1] == '-'):
            pos[0] += 1
            return {'unary': {'op': '!' if t[0] == '!' else '-', 'expr': unary()}}
        if t[0] == 'id' and pos[0] + 1 < len(toks) and toks[pos[0] + 1][0] == '(' and len(t[1]) >= 2:
            pos[0] += 2
            args = []
            while True:
                if peek() is not None and peek()[0] == ')':
                    pos[0] += 1
                    break
                if args:
                    if peek() is None or peek()[0] != ',':
                        raise Reject()
                    pos[0] += 1
                args.append(binary(1))
            return {'function': {'name': t[1], 'args': args}}
        if t[0] == 'num':
            pos[0] += 1
            return {'number': t[2]}
        if t[0] == 'str':
            pos[0] += 1
            return {'string': t[2]}
        if t[0] == 'id':
            pos[0] += 1
            return {'variable': t[1]}
        if t[0] == 'br':
            pos[0] += 1
            return {'variable': t[2]}
        raise Reject()

    def binary(minp):
        left = unary()
        while peek() is not None and peek()[0] == 'op' and PREC[peek()[1]] >= minp:
            op = peek()[1]
            pos[0] += 1
            right = binary(PREC[op] + 1)
            left = {'binary': {'op': op, 'left': left, 'right': right}}
        return left
    e = binary(1)
    if pos[0] != len(toks):
        raise Reject()
    return e


def token_text(toks):
    return ' '.join(t[1] if len(t) > 1 else t[0] for t in toks)


def valid_tokens(rnd, d):
    k = rnd.random()
    if d <= 0 or k < 0.3:
        while True:
            t = rand_token(rnd)
            if t[0] in ('num', 'str', 'id', 'br'):
                return [t]
    if k < 0.6:
        return valid_tokens(rnd, d - 1) + [('op', rnd.choice(OPS))] + valid_tokens(rnd, d - 1)
    if k < 0.7:
        return [('(',)] + valid_tokens(rnd, d - 1) + [(')',)]
    if k < 0.8:
        return [rnd.choice([('!',), ('op', '-')])] + valid_tokens(rnd, d - 1)
    args = []
    for i in range(rnd.randint(0, 3)):
        if i:
            args.append((',',))
        args += valid_tokens(rnd, d - 1)
    return [('id', rnd.choice(['foo', 'if', 'max']))] + [('(',)] + args + [(')',)]


def gen_token_string(rnd, size):
    if rnd.random() < 0.25:
        return [rand_token(rnd) for _ in range(rnd.randint(1, 3 + size))], 'soup'
    toks = valid_tokens(rnd, min(size, 5))
    kind = 'valid'
    if rnd.random() < 0.55 and toks:
        i = rnd.randrange(len(toks))
        m = rnd.random()
        if m < 0.35:
            del toks[i]
            kind = 'deleted'
        elif m < 0.7:
            toks.insert(i, rand_token(rnd))
            kind = 'inserted'
        elif m < 0.9:
            toks[i] = rand_token(rnd)
            kind = 'replaced'
        else:
            j = rnd.randrange(len(toks))
            toks[i], toks[j] = toks[j], toks[i]
            kind = 'swapped'
    return toks, kind


def check_tokens(toks):
    text = token_text(toks)
    if not toks:
        return text, None
    try:
        expected = recognise(toks)
    except Reject:
        expected = None
    except RecursionError:
        return text, 'skip'
    check_text(text, expected, 'tokens')
    return text, expected


# ---- plan ------------------------------------------------------------------------------------------------------------

def plan(tier):
    maxlen = 3 if tier == 'quick' else 4
    parts = 6 if tier == 'quick' else 16
    specs = [{'kind': 'chains', 'maxlen': maxlen, 'part': i, 'parts': parts} for i in range(parts)]
    k = 5 if tier == 'quick' else 16
    specs += [{'kind': 'trees', 'n': 6000 if tier == 'quick' else 60000, 'k': i} for i in range(k)]
    specs += [{'kind': 'tokens', 'n': 8000 if tier == 'quick' else 60000, 'k': i} for i in range(k)]
    return specs


_NUM_TOKEN = re.compile(r'[+-]?\d+(\.\d*)?(e[+-]?\d+)?$')


def break_tokens(toks, rnd):
    """One small edit of a well-formed token list that leaves text which is NOT an expression: white space inside a number literal or a two-character
    operator, an empty argument position. Returns (tokens, what) or None if the list offers no place for any of them."""
    cands = []
    for i, t in enumerate(toks):
        if not isinstance(t, str):
            continue
        if _NUM_TOKEN.match(t):
            if 'e' in t:
                k = t.index('e')
                cands.append((i, t[:k] + ' ' + t[k:], 'blank-before-exponent'))
                cands.append((i, t[:k + 1] + ' ' + t[k + 1:], 'blank-after-exponent-letter'))
            digits = t.lstrip('+-')
            if len(digits) >= 2 and digits[0].isdigit() and digits[1] in '0123456789.':
                cut = len(t) - len(digits) + 1
                cands.append((i, t[:cut] + ' ' + t[cut:], 'blank-inside-number'))
        elif t in ('**', '<=', '>=', '==', '!=', '&&', '||'):
            cands.append((i, t[0] + ' ' + t[1], 'blank-inside-operator'))
        elif t == ',':
            cands.append((i, rnd.choice([',,', ', ,', ',,,']), 'empty-argument'))
    if not cands:
        return None
    i, new, how = rnd.choice(cands)
    return toks[:i] + [new] + toks[i + 1:], how


def check_rejected(text, how, origin):
    d = {'kind': 'broken', 'text': text, 'how': how, 'from': origin}
    try:
        m = impl.bs.parse_expression(text)
    except impl.bs.ParserError:
        return
    except RecursionError:
        return
    except Exception as e:  # pylint: disable=broad-except
        raise Violation('parse_expression(%r) raised %s instead of a parser error' % (text, type(e).__name__), d, 'reject-host-exception') from e
    raise Violation('ill-formed expression %r (%s, from %r) was accepted as %r' % (text, how, origin, m), d, 'ill-formed-accepted:' + how)


def run_shard(ctx, spec):
    if spec['kind'] == 'chains':
        ix = 0
        for n in range(1, spec['maxlen'] + 1):
            for ops in itertools.product(OPS, repeat=n):
                ix += 1
                if ix % spec['parts'] != spec['part']:
                    continue
                run_chain(ctx, ops, tight=(ix % 3 == 0))
        ctx.exhaustive['all binary operator sequences of length 1..%d x {plain, unary -, unary !, group} at every position' % spec['maxlen']] = True
        return
    if spec['kind'] == 'trees':
        def prop(seed, size):
            rnd = random.Random(seed)
            ge.WIDE['numbers'] = True
            try:
                tree = ge.gen_tree(rnd, size)
            finally:
                ge.WIDE['numbers'] = False
            toks, expected = ge.print_tree(tree, rnd, rnd.choice([0.0, 0.0, 0.15, 0.4]))
            text = ge.join_tokens(toks, rnd)
            try:
                check_text(text, expected, 'tree')
            except Violation as v:
                v.detail.update(seed=seed, size=size)
                raise
            broken = break_tokens(toks, rnd)
            if broken is not None:
                btoks, how = broken
                btext = ge.join_tokens(btoks, rnd)
                check_rejected(btext, how, text)
                ctx.case(digest('broken:' + btext), True, ['broken-by:' + how], {'text': btext, 'from': text})
            nt = ge.tree_depth(tree) >= 3 and ('group' in text or '(' in text or ge.tree_has(tree, ('unary',)))
            ctx.case(digest(text), nt, ['tree-depth%d' % min(ge.tree_depth(tree), 8)] +
                     [c for c, ks in (('has-call', ('call',)), ('has-unary', ('unary',)), ('has-string', ('str',)), ('has-bracket', ('brvar',)))
                      if ge.tree_has(tree, ks)], {'text': text})
        def minimise(v):
            rnd = random.Random(v.detail['seed'])
            return shrink_tree(ge.gen_tree(rnd, v.detail['size']))
        run_hypothesis(ctx, prop, [st.integers(0, 2 ** 32 - 1), st.integers(1, 8)], spec['n'], salt=spec['k'], minimise=minimise)
        return

    def tprop(seed, size):
        rnd = random.Random(seed)
        toks, kind = gen_token_string(rnd, size)
        try:
            text, expected = check_tokens(toks)
        except Violation as v:
            v.detail.update(seed=seed, size=size)
            raise
        if expected == 'skip':
            ctx.discard('recursion')
            return
        ctx.case(digest(text), len(toks) >= 3, ['tokens-' + kind, 'accepted' if expected is not None else 'rejected'], {'text': text})
    def tminimise(v):
        rnd = random.Random(v.detail['seed'])
        return shrink_tokens(gen_token_string(rnd, v.detail['size'])[0])
    run_hypothesis(ctx, tprop, [st.integers(0, 2 ** 32 - 1), st.integers(1, 8)], spec['n'], salt=50 + spec['k'], minimise=tminimise)


def _subtrees(t):
    """Candidate replacements of t by something smaller (children first, then a leaf)."""
    k = t[0]
    if k == 'bin':
        yield t[2]
        yield t[3]
    elif k in ('unary', 'group'):
        yield t[-1]
    elif k == 'call':
        for a in t[2]:
            yield a
        for i in range(len(t[2])):
            yield ('call', t[1], t[2][:i] + t[2][i + 1:])
    if k not in ('var',):
        yield ('var', 'a')


def _rebuild(t, path, new):
    if not path:
        return new
    i = path[0]
    if t[0] == 'bin':
        return ('bin', t[1], _rebuild(t[2], path[1:], new), t[3]) if i == 0 else ('bin', t[1], t[2], _rebuild(t[3], path[1:], new))
    if t[0] == 'unary':
        return ('unary', t[1], _rebuild(t[2], path[1:], new))
    if t[0] == 'group':
        return ('group', _rebuild(t[1], path[1:], new))
    args = list(t[2])
    args[i] = _rebuild(args[i], path[1:], new)
    return ('call', t[1], args)


def _paths(t, prefix=()):
    yield prefix
    if t[0] == 'bin':
        yield from _paths(t[2], prefix + (0,))
        yield from _paths(t[3], prefix + (1,))
    elif t[0] in ('unary', 'group'):
        yield from _paths(t[-1], prefix + (0,))
    elif t[0] == 'call':
        for i, a in enumerate(t[2]):
            yield from _paths(a, prefix + (i,))


def _get(t, path):
    for i in path:
        t = (t[2] if i == 0 else t[3]) if t[0] == 'bin' else (t[-1] if t[0] in ('unary', 'group') else t[2][i])
    return t


def shrink_tree(tree):
    """Greedy structural minimisation of a failing source tree (deterministic printing, single spaces)."""
    def failure(t):
        toks, expected = ge.print_tree(t)
        try:
            check_text(ge.join_tokens(toks), expected, 'tree')
        except Violation as v:
            return v
        return None
    best = failure(tree)
    if best is None:
        return None
    improved = True
    budget = 3000
    while improved and budget > 0:
        improved = False
        for path in sorted(_paths(tree), key=len):
            for cand in _subtrees(_get(tree, path)):
                budget -= 1
                t2 = _rebuild(tree, path, cand)
                v = failure(t2)
                if v is not None:
                    tree, best, improved = t2, v, True
                    break
            if improved:
                break
    return best


def shrink_tokens(toks):
    from pbt.common.core import ddmin_list

    def fails(ts):
        try:
            check_tokens(ts)
        except Violation:
            return True
        return False
    if not fails(toks):
        return None
    small = ddmin_list(toks, fails)
    try:
        check_tokens(small)
    except Violation as v:
        return v
    return None


def replay(detail):
    if detail.get('kind') == 'broken':
        check_rejected(detail['text'], detail['how'], detail.get('from'))
        return
    check_text(detail['text'], detail['expected'], detail.get('kind', 'replay'))
