"""C18 - lint is pure, never fails, and its warnings are semantically justified."""
import copy
import json
import random
import re

from hypothesis import strategies as st

from pbt.common import impl
from pbt.common.core import Violation, digest, enc, run_hypothesis
from pbt.gen import programs as gp
from pbt.checks import c08
from pbt.checks.c01 import gen_program, make_cc, make_probe

ID = 'C18'
LEVEL = 'exploration'
RULE = ('(a) seeded structured programs (C01 generator) made sloppy by inserting unused locals/arguments, literal-only and call-bearing expression '
        'statements and user labels; (b) seeded hand-built jump-level models with duplicate labels, dangling jumps, labels reused across scopes, '
        'duplicate function names and duplicate arguments; (c) every shipped .bare script. Oracle: lint_script returns a list of strings, does '
        'not raise, leaves deepcopy(model) equal and returns the same list on a second call; applying each reported advice to a copy of the '
        'model (rename an unused variable/argument, delete an unused label or pointless statement) and re-running gives the same result, '
        'marker/probe sequence and final globals; the multiset of (scope, label) in unknown-label warnings equals, by an independent per-scope '
        'walk, the jump targets with no definition in that scope, making such a jump unconditional at the head of its scope raises Unknown '
        'jump label and warning-free models never raise it; redefinition/duplicate warnings equal with multiplicity the functions, arguments and '
        'labels defined more than once in one scope. Non-trivial: the model produced >= 1 warning of a checked kind. Distinct by model.')
RULE += ' Also: arguments / locals named null, true, false whose only use is being called; a use 150-300 levels deep in one expression; empty and __bareScript* label names. Hand-built models have function statements at top level only.'
RULE += ' Round 7: hand-built blocks in which the only use of an argument / local is that it is CALLED, under arbitrary names (one character, empty, with blanks); labels spelled like model member names.'
RULE += ' Round 8: an equal model whose arrays are tuples must lint the same; labels that look like composed keys (`1:A`, `ff.A`).'
ASSUMPTIONS = [
    'hand-built models have the scopes the language has: function statements occur at top level only (the parser rejects nested definitions; lint does not look inside them)','advice is applied one warning at a time to a fresh copy of the model',
               'runs that exceed the statement budget before or after the edit are discarded (deleting a statement shifts the abort point)']

MAXS = 2500
_maxs = [MAXS]
SLOPPY = ['xq + 1', '5', "'s'", '!yq', '(xq)', 'lbl%d:', 'exprLbl%d:', 'next_expr%d:', 'jumpTo%d:', 'name%d:', 'q%d = 3', 'q%d = 3', "systemLog('s%d') && 0", "probe('z%d', 1) * 2 - 1", '-(1 + 2)', '0 + mathAbs(1)']


def keyword_named_block(rnd):
    """Arguments and locals named like the constants null / true / false (also if): as an expression such a name is the constant, but as the
    name of a called function it IS looked up - the only use of the argument / local is then that call."""
    kw = rnd.choice(['null', 'true', 'false', 'if'])
    other = rnd.choice(['vv', 'true', 'null']) if kw not in ('true', 'null') else 'vv'
    n = rnd.randint(0, 99)
    lines = ['function kwDouble%d(nn):' % n, '    return nn * 2', 'endfunction']
    form = rnd.choice(['arg', 'arg', 'local', 'unused'])
    if form == 'arg':
        lines += ['function kwApply%d(%s, %s):' % (n, kw, other), '    return %s(%s)' % (kw, other if other == 'vv' else '3'), 'endfunction',
                  'systemLog(kwApply%d(kwDouble%d, 21))' % (n, n)]
    elif form == 'local':
        lines += ['function kwApply%d(vv):' % n, '    %s = kwDouble%d' % (kw, n), '    return %s(vv)' % kw, 'endfunction', 'systemLog(kwApply%d(21))' % n]
    else:
        lines += ['function kwApply%d(%s, vv):' % (n, kw), '    return kwDouble%d(vv)' % n, 'endfunction', 'systemLog(kwApply%d(kwDouble%d, 21))' % (n, n)]
    return '\n'.join(lines) + '\n'


CALLED_NAMES = ['f', 'i', '', 'fi', 'n', 'x', 'iff', 'a b', 'nul', 'tru', 'e', 'l', 's', 'fn', 'null ', 'If', 'expr', 'name']


def called_name_statements(rnd):
    """Model statements (a hand-built model: any string is a name) in which the ONLY use of an argument / a local is that it is called."""
    nm = rnd.choice(CALLED_NAMES)
    n = rnd.randint(0, 99)
    V = lambda x: {'variable': x}  # noqa: E731
    dbl = {'function': {'name': 'cnDouble%d' % n, 'args': ['nn'], 'statements': [{'return': {'expr': {'binary': {'op': '*', 'left': V('nn'), 'right': {'number': 2.0}}}}}]}}
    form = rnd.choice(['arg', 'arg', 'local', 'unused'])
    if form == 'arg':
        other = 'vv' if nm != 'vv' else 'ww'
        app = {'function': {'name': 'cnApply%d' % n, 'args': [nm, other][::rnd.choice([1, -1])], 'statements': [{'return': {'expr': {'function': {'name': nm, 'args': [V(other)]}}}}]}}
        args = [V('cnDouble%d' % n), {'number': 21.0}]
        if app['function']['args'][0] != nm:
            args.reverse()
    elif form == 'local':
        app = {'function': {'name': 'cnApply%d' % n, 'args': ['vv'], 'statements': [{'expr': {'name': nm, 'expr': V('cnDouble%d' % n)}},
                                                                                      {'return': {'expr': {'function': {'name': nm, 'args': [V('vv')]}}}}]}}
        args = [{'number': 21.0}]
    else:
        app = {'function': {'name': 'cnApply%d' % n, 'args': [nm, 'vv'], 'statements': [{'return': {'expr': {'function': {'name': 'cnDouble%d' % n, 'args': [V('vv')]}}}}]}}
        args = [V('cnDouble%d' % n), {'number': 21.0}]
    call = {'expr': {'expr': {'function': {'name': 'systemLog', 'args': [{'function': {'name': 'cnApply%d' % n, 'args': args}}]}}}}
    return [dbl, app, call]


def deep_use_block(rnd):
    """An argument and a local whose only use sits hundreds of levels deep in one expression (a long left-deep chain, nested groups)."""
    n = rnd.choice([150, 230, 260, 300])
    k = rnd.randint(0, 99)
    chain = ' + '.join(['first'] + ['1'] * n)
    groups = '(' * (n // 2) + 'start' + ')' * (n // 2)
    return '\n'.join(['function deepUse%d(start):' % k, '    first = 2', '    total = ' + chain, '    return total + ' + groups, 'endfunction',
                      'systemLog(deepUse%d(5))' % k]) + '\n'


def scopes(model):
    yield ('global', None, model['statements'])
    for s in model['statements']:
        if 'function' in s:
            yield ('function', s['function']['name'], s['function']['statements'])


def independent_analysis(model):
    """(unknown: multiset of (scope name, label), redefined labels multiset, redefined functions multiset, duplicate args multiset)."""
    unknown, relabel, refunc, dupargs = [], [], [], []
    seen_funcs = {}
    for kind, fname, stmts in scopes(model):
        defs, uses = {}, []
        for s in stmts:
            if 'label' in s:
                defs[s['label']] = defs.get(s['label'], 0) + 1
            elif 'jump' in s:
                uses.append(s['jump']['label'])
        for label in sorted(set(uses)):
            if label not in defs:
                unknown.append((fname, label))
        for label, n in defs.items():
            relabel += [(fname, label)] * (n - 1)
    for s in model['statements']:
        if 'function' in s:
            f = s['function']
            seen_funcs[f['name']] = seen_funcs.get(f['name'], 0) + 1
            if seen_funcs[f['name']] > 1:
                refunc.append(f['name'])
            args = f.get('args') or []
            counts = {}
            for a in args:
                counts[a] = counts.get(a, 0) + 1
                if counts[a] > 1:
                    dupargs.append((f['name'], a))
    return sorted(unknown, key=str), sorted(relabel, key=str), sorted(refunc), sorted(dupargs)


_W = {
    'unknown-f': re.compile(r'^Unknown label "(.*)" in function "(.*)" \(index (\d+)\)$'),
    'unknown-g': re.compile(r'^Unknown global label "(.*)" \(index (\d+)\)$'),
    'relabel-f': re.compile(r'^Redefinition of label "(.*)" in function "(.*)" \(index (\d+)\)$'),
    'relabel-g': re.compile(r'^Redefinition of global label "(.*)" \(index (\d+)\)$'),
    'refunc': re.compile(r'^Redefinition of function "(.*)" \(index (\d+)\)$'),
    'duparg': re.compile(r'^Duplicate argument "(.*)" of function "(.*)" \(index (\d+)\)$'),
    'unused-var': re.compile(r'^Unused variable "(.*)" defined in function "(.*)" \(index (\d+)\)$'),
    'unused-arg': re.compile(r'^Unused argument "(.*)" of function "(.*)" \(index (\d+)\)$'),
    'unused-label-f': re.compile(r'^Unused label "(.*)" in function "(.*)" \(index (\d+)\)$'),
    'unused-label-g': re.compile(r'^Unused global label "(.*)" \(index (\d+)\)$'),
    'pointless-f': re.compile(r'^Pointless statement in function "(.*)" \(index (\d+)\)$'),
    'pointless-g': re.compile(r'^Pointless global statement \(index (\d+)\)$'),
}


def classify(w):
    for kind, rx in _W.items():
        m = rx.match(w)
        if m:
            return kind, m.groups()
    return None, ()


def run(model, globals0, maxs=None):
    logs = []
    g = copy.deepcopy(globals0)
    g['probe'] = make_probe(logs)
    g['cc'] = make_cc(logs, [True, False, True])
    out = impl.run_model(model, g, None, maxs or _maxs[0], logFn=lambda m: logs.append(('log', m)))
    user = {}
    for k, v in g.items():
        if k in ('probe', 'cc') or (k in impl.bs.SCRIPT_FUNCTIONS and v is impl.bs.SCRIPT_FUNCTIONS[k]):
            continue
        user[k] = '<function>' if callable(v) else v
    return (out.kind, repr(_plain(out.value)) if out.kind == 'ok' else out.message), logs, user


def same_run(a, b, ignore=()):
    if a[0] != b[0] or a[1] != b[1]:
        return False
    ka = {k: _plain(v) for k, v in a[2].items() if k not in ignore}
    kb = {k: _plain(v) for k, v in b[2].items() if k not in ignore}
    return repr(sorted(ka.items(), key=lambda kv: kv[0])) == repr(sorted(kb.items(), key=lambda kv: kv[0]))


def _plain(v, depth=0):
    """Final globals for comparison: a function value is just 'a function' (its repr would spell out the - renamed - model)."""
    if callable(v):
        return '<function>'
    if depth > 30:
        return '<deep>'
    if isinstance(v, list):
        return [_plain(x, depth + 1) for x in v]
    if isinstance(v, dict):
        return {k: _plain(x, depth + 1) for k, x in v.items()}
    return v


def function_statements(model, name):
    return [s['function'] for s in model['statements'] if 'function' in s and s['function']['name'] == name]


def _tuples(v):
    if isinstance(v, dict):
        return {k: _tuples(x) for k, x in v.items()}
    if isinstance(v, (list, tuple)):
        return tuple(_tuples(x) for x in v)
    return v


def check_model(model, globals0, run_it=True):
    d = {'kind': 'model', 'model': model, 'globals': enc(globals0)}
    before = copy.deepcopy(model)
    try:
        w1 = impl.bs.lint_script(model)
        w2 = impl.bs.lint_script(model)
    except Exception as e:  # pylint: disable=broad-except
        raise Violation('lint_script raised %s: %s' % (type(e).__name__, e), d, 'lint-raises') from e
    if model != before:
        raise Violation('lint_script modified the model', d, 'lint-modifies-model')
    if not isinstance(w1, list) or not all(isinstance(w, str) for w in w1):
        raise Violation('lint_script returned %r' % (w1,), d, 'lint-return-type')
    if w1 != w2:
        raise Violation('lint_script gives different warnings on a second call', d, 'lint-not-deterministic')
    # an equal model that shares no objects with this one (a hand-built model may use one expression object in several places) lints the same
    try:
        w3 = impl.bs.lint_script(json.loads(json.dumps(model)))
    except Exception as e:  # pylint: disable=broad-except
        raise Violation('lint_script raised %s on an equal copy of the model' % type(e).__name__, d, 'lint-raises') from e
    if w3 != w1:
        raise Violation('an equal copy of the model (no shared expression objects) gives other warnings: %r vs %r' % (
            [w for w in w3 if w not in w1][:2], [w for w in w1 if w not in w3][:2]), dict(d, shared_objects=True), 'lint-depends-on-object-identity')
    # an equal model whose arrays are tuples (a host may build its models from tuples; validate_script and execute_script accept them)
    try:
        w5 = impl.bs.lint_script(_tuples(model))
    except Exception as e:  # pylint: disable=broad-except
        raise Violation('lint_script raised %s on an equal model whose arrays are tuples' % type(e).__name__, d, 'lint-raises') from e
    if w5 != w1:
        raise Violation('an equal model whose arrays are tuples gives other warnings: %r vs %r' % ([w for w in w5 if w not in w1][:2], [w for w in w1 if w not in w5][:2]),
                        dict(d, tuples=True), 'lint-depends-on-sequence-type')
    # the returned list belongs to the caller: whatever the caller does to it, the next call's answer is the same
    if w1 is w2:
        raise Violation('two lint_script calls returned the very same list object', d, 'lint-shared-result')
    kept = list(w1)
    w1.append('scribbled by the caller')
    w2.clear()
    w4 = impl.bs.lint_script(model)
    w1 = kept
    if w4 != kept:
        raise Violation('after the caller changed an earlier result, lint_script gives %r instead of %r' % (w4[:3], kept[:3]), d, 'lint-shared-result')
    kinds = [classify(w) for w in w1]
    # ---- exactness of label / redefinition warnings --------------------------------------------------------------------------
    unknown, relabel, refunc, dupargs = independent_analysis(model)
    got_unknown = sorted([(g[1], g[0]) for k, g in kinds if k == 'unknown-f'] + [(None, g[0]) for k, g in kinds if k == 'unknown-g'], key=str)
    got_relabel = sorted([(g[1], g[0]) for k, g in kinds if k == 'relabel-f'] + [(None, g[0]) for k, g in kinds if k == 'relabel-g'], key=str)
    got_refunc = sorted(g[0] for k, g in kinds if k == 'refunc')
    got_dupargs = sorted((g[1], g[0]) for k, g in kinds if k == 'duparg')
    if got_unknown != unknown:
        raise Violation('unknown-label warnings %r, jump targets without a definition in their scope %r' % (got_unknown, unknown), d, 'unknown-label-exactness')
    if got_relabel != relabel:
        raise Violation('label redefinition warnings %r, labels defined more than once per scope %r' % (got_relabel, relabel), d, 'label-redefinition-exactness')
    if got_refunc != refunc:
        raise Violation('function redefinition warnings %r, functions defined more than once %r' % (got_refunc, refunc), d, 'function-redefinition-exactness')
    if got_dupargs != dupargs:
        raise Violation('duplicate argument warnings %r, arguments listed more than once %r' % (got_dupargs, dupargs), d, 'duplicate-argument-exactness')
    checked = sum(1 for k, _ in kinds if k is not None)
    if not run_it:
        return checked, [k for k, _ in kinds if k]
    # ---- unknown labels can raise; warning-free models cannot -------------------------------------------------------------------
    for fname, label in unknown[:3]:
        if fname is None:
            m2 = {'statements': [{'jump': {'label': label}}] + copy.deepcopy(model['statements'])}
        else:
            f = copy.deepcopy([fs for fs in function_statements(model, fname)
                               if any('jump' in s and s['jump']['label'] == label for s in fs['statements'])
                               and not any(s.get('label') == label for s in fs['statements'])][0])
            f['statements'].insert(0, {'jump': {'label': label}})
            m2 = {'statements': [{'function': f}, {'expr': {'expr': {'function': {'name': fname, 'args': []}}}}]}
        r = run(m2, globals0)
        if r[0] != ('runtime-error', 'Unknown jump label "%s"' % label):
            raise Violation('lint says label %r is unknown in %s, but taking that jump gives %r' % (label, fname or 'the global scope', r[0]), d, 'unknown-label-runtime')
    base = run(model, globals0)
    if base[0][0] == 'runtime-error' and base[0][1].startswith('Unknown jump label') and not unknown:
        raise Violation('the run raised %r although lint reported no unknown label' % (base[0][1],), d, 'unknown-label-missed')
    if base[0][0] not in ('ok', 'runtime-error') or (base[0][0] == 'runtime-error' and base[0][1].startswith('Exceeded')):
        return checked, [k for k, _ in kinds if k]
    # ---- soundness of the advice: apply it and re-run ----------------------------------------------------------------------------
    names = [s['function']['name'] for s in model['statements'] if 'function' in s]
    dup_function_names = len(names) != len(set(names))
    for w, (kind, g) in zip(w1, kinds):
        m = copy.deepcopy(model)
        ignore = ()
        if kind == 'unused-var' and not dup_function_names:
            var, fname = g[0], g[1]
            for s in function_statements(m, fname)[0]['statements']:
                if 'expr' in s and s['expr'].get('name') == var:
                    s['expr']['name'] = var + '__renamed'
        elif kind == 'unused-arg' and not dup_function_names:
            var, fname, ix = g[0], g[1], int(g[2])
            fn = m['statements'][ix]['function']
            fn['args'] = [a if a != var else var + '__renamed' for a in fn['args']]
            for s in fn['statements']:
                if 'expr' in s and s['expr'].get('name') == var:
                    s['expr']['name'] = var + '__renamed'
        elif kind == 'pointless-g':
            del m['statements'][int(g[0])]
        elif kind == 'pointless-f' and not dup_function_names:
            del function_statements(m, g[0])[0]['statements'][int(g[1])]
        elif kind == 'unused-label-g':
            ix = int(g[1])
            if m['statements'][ix] != {'label': g[0]}:
                raise Violation('warning %r does not point at the label statement' % w, d, 'warning-index')
            del m['statements'][ix]
        elif kind == 'unused-label-f' and not dup_function_names:
            fs = function_statements(m, g[1])[0]['statements']
            if fs[int(g[2])] != {'label': g[0]}:
                raise Violation('warning %r does not point at the label statement' % w, d, 'warning-index')
            del fs[int(g[2])]
        else:
            continue
        r = run(m, globals0)
        if r[0][0] == 'runtime-error' and r[0][1].startswith('Exceeded'):
            continue
        if not same_run(base, r, ignore):
            raise Violation('following the advice %r changes the run: %r %d events -> %r %d events' % (w, base[0], len(base[1]), r[0], len(r[1])),
                            dict(d, warning=w), 'advice-unsound:' + kind)
    return checked, [k for k, _ in kinds if k]


USE_TEMPLATES = ["systemLog(arrayNew(0, 0, 0, {v}))", "systemLog(if(false, 0, {v}))", "systemLog(if({v}, 'set', 'unset'))", "systemLog(objectNew('a', 1, 'b', {v}))",
                 "systemLog(-{v})", "systemLog(!{v})", "systemLog(({v}))", "systemLog(1 + 2 * {v})", "systemLog(mathMax(0, 1, 2, 3, {v}))",
                 "if {v} > 1:\n{i}    systemLog('big')\n{i}endif", "systemLog(stringNew(arrayNew(arrayNew({v}))))", "systemLog([{v}])"]


def sloppy_source(rnd, src):
    out = src.rstrip('\n').split('\n')
    k = 0
    n = 0
    while k < len(out):
        if rnd.random() < 0.15 and not out[k].lstrip().startswith(('elif', 'else', 'endif', 'endwhile', 'endfor', 'endfunction')):
            ind = re.match(r'^\s*', out[k]).group(0)
            n += 1
            if rnd.random() < 0.35:
                # a variable that IS used, in an unusual position (deep argument, unary, group, condition, bracketed name)
                v = 'uq%d' % n
                out.insert(k, ind + '%s = %d' % (v, rnd.randint(2, 9)))
                out.insert(k + 1, ind + rnd.choice(USE_TEMPLATES).format(v=v, i=ind))
                k += 2
            else:
                line = rnd.choice(SLOPPY)
                out.insert(k, ind + (line % n if '%d' in line else line))
                k += 1
        k += 1
    return '\n'.join(out) + '\n'


def _flatten_nested_functions(model):
    """The language has no nested function definitions (the parser rejects them), and lint analyses the scopes the language has: the global
    scope and one level of functions. A function statement inside a function body (schema-valid only by accident) is replaced by a marker."""
    n = 0
    for s in model['statements']:
        if 'function' in s:
            body = s['function']['statements']
            for i, t in enumerate(body):
                if 'function' in t:
                    body[i] = c08.log_stmt('was-nested-function')
                    n += 1
    return n


def _share_expressions(rnd, model):
    """One expression object used in two scopes (a host that builds a model re-uses sub-trees)."""
    slots = []
    for _, _, stmts in scopes(model):
        for t in stmts:
            for key in ('expr', 'jump', 'return'):
                if key in t and isinstance(t[key], dict) and isinstance(t[key].get('expr'), dict):
                    slots.append(t[key])
    if len(slots) >= 2:
        for _ in range(rnd.randint(1, 3)):
            a, b = rnd.sample(slots, 2)
            b['expr'] = a['expr']
        return True
    return False


def sloppy_model(rnd, size):
    if rnd.random() < 0.02:
        return {'statements': []}
    model = c08.random_model(rnd, size)
    _flatten_nested_functions(model)
    if rnd.random() < 0.3:
        _share_expressions(rnd, model)
    # duplicate function names / duplicate arguments / labels reused across scopes are already likely; add some on purpose
    for s in model['statements']:
        if 'function' in s and rnd.random() < 0.4:
            s['function']['args'] = rnd.choice([['a1', 'a1'], ['a1', 'a2', 'a1'], ['a1', 'a2'], ['p', 'p', 'p']])
    if rnd.random() < 0.4:
        fns = [s for s in model['statements'] if 'function' in s]
        if fns:
            dup = copy.deepcopy(rnd.choice(fns))
            extra = rnd.choice([[{'jump': {'label': 'Z9'}}], [{'label': 'A'}, {'label': 'A'}], [], [{'jump': {'label': 'A', 'expr': c08.cond()}}]])
            dup['function']['statements'] = extra + dup['function']['statements']
            model['statements'].insert(rnd.randint(0, len(model['statements'])), dup)
    return model


HASHSEED_CODE = '''
import json, sys
from bare_script import lint_script
print(json.dumps([lint_script(m) for m in json.load(sys.stdin)]))
'''


def _lint_raises(m):
    try:
        impl.bs.lint_script(m)
    except Exception:  # pylint: disable=broad-except
        return True
    return False


def check_hash_seeds(models, seeds=(1, 2, 3, 4)):
    import json
    import os
    import subprocess
    import sys
    try:
        here = [impl.bs.lint_script(m) for m in models]
    except Exception as e:  # pylint: disable=broad-except
        bad = next((m for m in models if _lint_raises(m)), models[0])
        raise Violation('lint_script raised %s: %s' % (type(e).__name__, e), {'kind': 'model', 'model': bad, 'globals': {}}, 'lint-raises') from e
    src = os.path.dirname(os.path.dirname(impl.bs.module.__file__))
    for hs in seeds:
        r = subprocess.run([sys.executable, '-c', HASHSEED_CODE], input=json.dumps(models), capture_output=True, text=True,
                           env=dict(os.environ, PYTHONPATH=src, PYTHONHASHSEED=str(hs)), timeout=300)
        if r.returncode != 0:
            raise Violation('lint_script failed in a fresh process: %s' % r.stderr[-200:], {'kind': 'hashseed', 'models': models[:1]}, 'hashseed-fails')
        there = json.loads(r.stdout)
        for m, a, b in zip(models, here, there):
            if a != b:
                raise Violation('the same model gives %r in this process and %r in a process with PYTHONHASHSEED=%d' % (a[:4], b[:4], hs),
                                {'kind': 'hashseed', 'model': m, 'hashseed': hs}, 'warnings-depend-on-hash-seed')


def plan(tier):
    k = 6 if tier == 'quick' else 16
    specs = [{'kind': 'programs', 'n': 160 if tier == 'quick' else 15000, 'k': i} for i in range(10 if tier == 'quick' else 16)]
    specs += [{'kind': 'models', 'n': 1500 if tier == 'quick' else 30000, 'k': i} for i in range(k)]
    specs += [{'kind': 'shipped'}]
    return specs


def run_shard(ctx, spec):
    if spec['kind'] == 'shipped':
        # models with several warnings of each kind (>= 2 unused variables per function, several labels ...) linted under other hash seeds
        rnd = random.Random(ctx.seed * 211)
        batch = []
        for i in range(40 if ctx.tier == 'quick' else 400):
            m = sloppy_model(rnd, 4)
            for s_ in m['statements']:
                if 'function' in s_:
                    for j, nm in enumerate(rnd.sample(['width', 'height', 'title', 'total', 'margin', 'footer', 'zeta', 'alpha'], rnd.randint(2, 6))):
                        s_['function']['statements'].insert(rnd.randint(0, len(s_['function']['statements'])), {'expr': {'name': nm, 'expr': {'number': float(j)}}})
            batch.append(m)
        try:
            check_hash_seeds(batch)
        except Violation as v:
            ctx.violation(v)
        for i, m in enumerate(batch):
            ctx.case(digest(m), True, ['hash-seed-independence'])
        for name in sorted(impl.include_names()):
            if name.endswith('.bare'):
                model = impl.bs.parse_script(impl.include_text(name))
                try:
                    checked, kinds = check_model(model, {}, run_it=False)
                except Violation as v:
                    ctx.violation(v)
                    continue
                ctx.case('shipped:' + name, True, ['shipped'], {'script': name})
        return
    if spec['kind'] == 'programs':
        def prop(seed, size):
            rnd = random.Random(seed)
            prog, src, globals0, pg = gen_program(rnd, size)
            text = sloppy_source(rnd, src)
            if rnd.random() < 0.2:
                text = keyword_named_block(rnd) + text
            if rnd.random() < 0.04:
                text = deep_use_block(rnd) + text
            globals0 = {k: v for k, v in globals0.items() if not callable(v)}
            model = impl.parse_valid(text, {'kind': 'source', 'source': text})
            try:
                checked, kinds = check_model(model, globals0)
            except Violation as v:
                v.detail['source'] = text
                raise
            ctx.case(digest(text), checked >= 1, ['program'] + ['warn:' + k for k in set(kinds)], {'source': text[:600]})
        run_hypothesis(ctx, prop, [st.integers(0, 2 ** 32 - 1), st.integers(1, 4)], spec['n'], salt=spec['k'])
        return

    def mprop(seed, size):
        rnd = random.Random(seed)
        model = sloppy_model(rnd, size)
        if rnd.random() < 0.2:
            model['statements'][0:0] = called_name_statements(rnd)
        _maxs[0] = 300        # hand-built models may recurse without bound: keep the host stack shallow
        try:
            checked, kinds = check_model(model, {'n': 0.0, 'k': 0.0})
        finally:
            _maxs[0] = MAXS
        ctx.case(digest(model), checked >= 1, ['model'] + ['warn:' + k for k in set(kinds)], {'model': model})
    run_hypothesis(ctx, mprop, [st.integers(0, 2 ** 32 - 1), st.integers(1, 5)], spec['n'], salt=40 + spec['k'])


def replay(detail):
    from pbt.common.core import dec
    if detail.get('kind') == 'hashseed':
        check_hash_seeds([detail['model']] if 'model' in detail else detail['models'])
        return
    check_model(detail['model'], dec(detail.get('globals', {})))
