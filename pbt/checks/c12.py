"""C12 - one number type: int and float spellings of a number are interchangeable."""
import copy
import datetime
import functools
import math
import random
import re

from hypothesis import strategies as st

from pbt.common import impl
from pbt.common.core import Violation, dec, digest, enc, run_hypothesis, innermost_repo_frame
from pbt.gen import values as gv
from pbt.refsem.values import is_number, ref_type

ID = 'C12'
LEVEL = 'exploration'
RULE = ('Every library function except datetimeNow/datetimeToday/mathRandom/systemFetch x Hypothesis argument lists of 0-5 values of all types '
        '(biased 75% towards each parameter\'s declared type; index/count/size parameters biased to the container length +-2), and every '
        'operator x operand pairs. Each case runs three times through the runtime call path with identical structure: integral numbers '
        '(|n| < 1e15) spelled int, spelled float (recursively inside arrays/objects), and with top-level numbers written as source literals. '
        'Oracle: same outcome kind (value / failed call / error class), results equal by numeric value (bool distinct from number), '
        'post-call arguments equal, same aliasing of the result to the arguments. Non-trivial: the call succeeded in some spelling and an '
        'argument contained an integral number; distinct by content hash. Classes report per-function ok/failed counts.')
RULE += ' Focus family: the couplings a uniformly drawn call rarely contains - dataAggregate over category columns mixing n with the strings that spell it and over values whose mean is not representable or that lie near 9e14 (all six functions), datetimeNew with huge cancelling components, equal integers held in two distinct host objects, dataTop with float counts, mathRound of 13-15 digit integers.'
RULE += ' Order family: ~575 calls over 23 special values (both zeros, int/float twins, 2**53, 1e21 ...) evaluated in fresh interpreter processes in four different orders must agree call by call.'
RULE += " Also: dataAggregate category columns mixing 1, '1', '1.0'; eleven or more values just below 1e15 averaged; datetimeNew with time components of magnitude 1e3..1e12 that cancel each other; large odd millisecond offsets. Results are compared exactly below 2**53 (1e-12 relative beyond it)."
ASSUMPTIONS = [
    'integer exponents of ** are capped at 64 (int ** int with huge exponents does not terminate; outside every listed property)',
    'callbacks are host functions; the clock, random and fetch functions are excluded as the property states',
    'results that overflow (inf vs arbitrary-precision int vs OverflowError-as-failure) are treated as one equivalence class',
]

EXCLUDED = {'datetimeNow', 'datetimeToday', 'mathRandom', 'systemFetch'}
BINARY_OPS = ['**', '*', '/', '%', '+', '-', '<=', '<', '>=', '>', '==', '!=', '&&', '||']

# argument models for functions that take their arguments without a declared model (own table, from the docs)
EXTRA_MODELS = {
    'arrayNew': [{'name': 'values', 'lastArgArray': True}],
    'objectNew': [{'name': 'kv', 'lastArgArray': True, 'kv': True}],
    'mathMax': [{'name': 'values', 'lastArgArray': True, 'type': 'number'}],
    'mathMin': [{'name': 'values', 'lastArgArray': True, 'type': 'number'}],
    'mathPi': [],
    'stringFromCharCode': [{'name': 'codes', 'lastArgArray': True, 'type': 'number', 'charcode': True}],
    'datetimeISOFormat': [{'name': 'datetime', 'type': 'datetime'}, {'name': 'isDate', 'type': 'boolean'}],
    'datetimeISOParse': [{'name': 'string', 'type': 'string', 'iso': True}],
    'dataParseCSV': [{'name': 'text', 'lastArgArray': True, 'type': 'string', 'csv': True}],
    'schemaParse': [{'name': 'lines', 'lastArgArray': True, 'type': 'string', 'schema': True}],
    'schemaTypeModel': [],
}


def fn_model(name):
    fn = impl.bs.SCRIPT_FUNCTIONS[name]
    lib = __import__('bare_script.library', fromlist=['x'])
    m = getattr(lib, getattr(fn, '__name__', '').upper() + '_ARGS', None)
    if m is None:
        m = EXTRA_MODELS.get(name)
    return m


def function_names():
    return sorted(n for n in impl.bs.SCRIPT_FUNCTIONS if n not in EXCLUDED)


# ------------------------------------------------------------------------------------------------------------
# spelling
# ------------------------------------------------------------------------------------------------------------

def spell(v, as_int, memo=None):
    """Deep copy with every integral number |n| < 1e15 spelled as int or as float; aliasing preserved."""
    if memo is None:
        memo = {}
    if is_number(v):
        if isinstance(v, float) and (math.isnan(v) or math.isinf(v)):
            return v
        if v == int(v) and abs(v) < 1e15 and not (isinstance(v, float) and v == 0 and math.copysign(1, v) < 0):
            return int(v) if as_int else float(v)
        return v
    if isinstance(v, list):
        if id(v) in memo:
            return memo[id(v)]
        out = memo[id(v)] = []
        out.extend(spell(x, as_int, memo) for x in v)
        return out
    if isinstance(v, dict):
        if id(v) in memo:
            return memo[id(v)]
        out = memo[id(v)] = {}
        for k, x in v.items():
            out[k] = spell(x, as_int, memo)
        return out
    return v


def has_integral(v):
    if is_number(v):
        return isinstance(v, int) or (math.isfinite(v) and v == int(v) and abs(v) < 1e15)
    if isinstance(v, list):
        return any(has_integral(x) for x in v)
    if isinstance(v, dict):
        return any(has_integral(x) for x in v.values())
    return False


def overflowish(v):
    """inf / nan, or a host int too large for a double."""
    if not is_number(v):
        return False
    if isinstance(v, float):
        return math.isinf(v) or math.isnan(v)
    try:
        float(v)
    except OverflowError:
        return True
    return False


def same(a, b):
    ta, tb = ref_type(a), ref_type(b)
    if ta != tb:
        return False
    if ta == 'number':
        if overflowish(a) or overflowish(b):
            return overflowish(a) and overflowish(b)
        fa, fb = float(a), float(b)
        # exact up to 2**53; beyond it a host int result (exact integer arithmetic) and the double computed from float operands may
        # differ in the last place - host ints of that size are not numbers a script can hold, so the two count as one result
        return fa == fb or (max(abs(fa), abs(fb)) > 2 ** 53 and abs(fa - fb) <= 1e-12 * max(abs(fa), abs(fb)))
    if ta == 'array':
        return len(a) == len(b) and all(same(x, y) for x, y in zip(a, b))
    if ta == 'object':
        return list(a.keys()) == list(b.keys()) and all(same(a[k], b[k]) for k in a)
    if ta == 'function':
        return type(a) is type(b)
    if ta == 'regex':
        return a.pattern == b.pattern and a.flags == b.flags
    if ta == 'datetime':
        return a == b if type(a) is type(b) else False
    return a == b


def alias_signature(result, args):
    """Which argument (or first-level element of an argument) the result, and each of its elements, is."""
    firsts = {}
    for i, a in enumerate(args):
        firsts.setdefault(id(a), ('arg', i))
        if isinstance(a, list):
            for j, e in enumerate(a):
                if isinstance(e, (list, dict)):
                    firsts.setdefault(id(e), ('elem', i, j))
        elif isinstance(a, dict):
            for k, e in a.items():
                if isinstance(e, (list, dict)):
                    firsts.setdefault(id(e), ('member', i, k))
    sig = [firsts.get(id(result)) if isinstance(result, (list, dict)) else None]
    if isinstance(result, list):
        sig.append([firsts.get(id(e)) if isinstance(e, (list, dict)) else None for e in result])
    return sig


# ------------------------------------------------------------------------------------------------------------
# running one call
# ------------------------------------------------------------------------------------------------------------

def host_cmp(args, options):
    a, b = (list(args) + [None, None])[:2]
    try:
        return (a > b) - (a < b)
    except TypeError:
        return 0


def host_pred(args, options):
    return bool(args) and is_number(args[0]) and args[0] > 1


HOST = {'host_cmp': host_cmp, 'host_pred': host_pred, 'host_fn_a': gv.host_fn_a, 'host_fn_b': gv.host_fn_b}


def run_call(name, args, literal_mask=None):
    """Evaluate name(args...) through the runtime's call path. Returns (kind, value, args_after, log)."""
    glob = {'a%d' % i: a for i, a in enumerate(args)}
    log = []
    if literal_mask:
        parts = []
        for i, a in enumerate(args):
            if literal_mask[i]:
                parts.append(repr(int(a)) if a >= 0 else '(0 - %d)' % abs(int(a)))
            else:
                parts.append('a%d' % i)
        model = impl.bs.parse_script('return %s(%s)' % (name, ', '.join(parts)))
        out = impl.run_model(model, glob, log, debug=True)
    else:
        expr = {'function': {'name': name, 'args': [{'variable': 'a%d' % i} for i in range(len(args))]}}
        glob.update({k: v for k, v in impl.bs.SCRIPT_FUNCTIONS.items() if k not in glob})
        try:
            out = impl.Outcome('ok', impl.bs.evaluate_expression(expr, {'globals': glob, 'logFn': log.append, 'debug': True}, None, False))
        except impl.bs.RuntimeError as e:
            out = impl.Outcome('runtime-error', message=str(e))
        except Exception as e:  # pylint: disable=broad-except
            out = impl.Outcome('host-exception', message=type(e).__name__, exc=e)
    failed = any('failed with error' in m for m in log)
    kind = out.kind if out.kind != 'ok' else ('failed' if failed else 'ok')
    if kind == 'host-exception' and isinstance(out.exc, OverflowError):
        kind = 'overflow'
    user_log = [m for m in log if 'failed with error' not in m]
    return kind, out.value, [glob['a%d' % i] for i in range(len(args))], user_log, (out.message or (log[0] if failed and log else None))


def check_call(name, args):
    d = {'kind': 'call', 'fn': name, 'args': enc(args)}
    runs = []
    for as_int in (True, False):
        a = spell(args, as_int)
        runs.append((a,) + run_call(name, a))
    (ai, ki, vi, pi, li, mi), (af, kf, vf, pf, lf, mf) = runs
    # third spelling: top-level integral numbers as source literals
    mask = [is_number(a) and math.isfinite(a) and a == int(a) and abs(a) < 1e15 and not (a == 0 and math.copysign(1, a) < 0) for a in args]
    if any(mask):
        al = spell(args, True)
        kl, vl, pl, ll, ml = run_call(name, al, mask)
    else:
        kl = None
    ok_any = 'ok' in (ki, kf)

    def norm_kind(k, v):
        return 'overflow' if (k == 'overflow' or (k == 'ok' and overflowish(v))) else k
    for label, (k2, v2, p2, l2, m2) in (('float', (kf, vf, pf, lf, mf)),) + ((('literal', (kl, vl, pl, ll, ml)),) if kl else ()):
        k1, k2n = norm_kind(ki, vi), norm_kind(k2, v2)
        if 'overflow' in (k1, k2n) and {k1, k2n} <= {'overflow', 'failed'}:
            continue     # an overflowing computation: inf, a huge int, or a failed call are one equivalence class
        if k1 != k2n:
            raise Violation('%s: int spelling -> %s (%s), %s spelling -> %s (%s)' % (name, ki, _short(vi, mi), label, k2, _short(v2, m2)),
                            d, 'outcome:' + name)
        if not same(vi, v2):
            raise Violation('%s: int spelling gives %s, %s spelling gives %s' % (name, _short(vi), label, _short(v2)), d, 'result:' + name)
        if len(pi) != len(p2) or not all(same(x, y) for x, y in zip(pi, p2)):
            raise Violation('%s: arguments after the call differ between int and %s spelling' % (name, label), d, 'args-after:' + name)
        if label == 'float' and alias_signature(vi, pi) != alias_signature(v2, p2):
            raise Violation('%s: result aliases its arguments differently between spellings' % name, d, 'aliasing:' + name)
        if li != l2 and not (len(li) == len(l2) and all(_logsame(x, y) for x, y in zip(li, l2))):
            raise Violation('%s: logged output differs between spellings: %r vs %r' % (name, li[:2], l2[:2]), d, 'log:' + name)
    return ok_any, ki


def _logsame(a, b):
    return a == b


def _short(v, msg=None):
    s = repr(v)
    if msg:
        s += ' / ' + str(msg)
    return s[:160]


def check_operator(op, x, y):
    d = {'kind': 'op', 'op': op, 'x': enc(x), 'y': enc(y)}
    if op == '**':
        if is_number(y) and abs(y) > 64 and is_number(x):
            y = math.copysign(64, y) if y == int(y) else y
    if op in ('-u', '!u'):
        expr = {'unary': {'op': op[0], 'expr': {'variable': 'x'}}}
    else:
        expr = {'binary': {'op': op, 'left': {'variable': 'x'}, 'right': {'variable': 'y'}}}
    res = []
    for as_int in (True, False):
        g = {'x': spell(x, as_int), 'y': spell(y, as_int)}
        try:
            res.append(('ok', impl.bs.evaluate_expression(expr, {'globals': g})))
        except Exception as e:  # pylint: disable=broad-except
            res.append((('overflow' if isinstance(e, OverflowError) else type(e).__name__), None))
    (k1, v1), (k2, v2) = res
    if 'overflow' in (k1, k2) or overflowish(v1) or overflowish(v2):
        # an overflowing computation: inf, a host int beyond the double range, an OverflowError or null (the contained
        # error) are one equivalence class
        def in_class(k, v):
            return k == 'overflow' or (k == 'ok' and (overflowish(v) or v is None))
        if not (in_class(k1, v1) and in_class(k2, v2)):
            raise Violation('operator %s overflows in one spelling only: %s / %s' % (op, _short(v1, k1), _short(v2, k2)), d, 'op-outcome:' + op)
        return True
    if k1 != k2:
        raise Violation('operator %s: int spelling -> %s, float spelling -> %s' % (op, k1, k2), d, 'op-outcome:' + op)
    if not same(v1, v2):
        raise Violation('operator %s: int spelling gives %s, float spelling gives %s' % (op, _short(v1), _short(v2)), d, 'op-result:' + op)
    return k1 == 'ok' and v1 is not None


# ------------------------------------------------------------------------------------------------------------
# generation
# ------------------------------------------------------------------------------------------------------------

small_int = st.integers(-2, 9)
integral = st.one_of(small_int, small_int, st.integers(-40, 400), st.sampled_from([0, 1, 2, 10, 16, 36, 23, 31, 100, 255, 65, 97, 128512, 2020, 10 ** 14, 10 ** 14 + 1, 250000000000007, -(10 ** 14 + 3), 72057594037929]))
def _representable(n):
    # host ints beyond 2**53 are not numbers a script can hold (every script number is a double): mixed with a respelled small
    # number they expose float rounding of the big int, not a spelling difference
    return float(n) if isinstance(n, int) and not isinstance(n, bool) and abs(n) > 2 ** 53 else n


any_number = st.one_of(integral, integral, gv.small_numbers, gv.numbers.map(_representable))
def _away_from_2_53(n):
    # row values take part in expressions (a + b, a * 2, n + a): next to 2**53 an exact host-int sum and the rounded double sum differ, which
    # is float rounding of a value no script number can hold, not a spelling difference
    return n if not (is_number(n) and 2 ** 50 <= abs(n) <= 2 ** 56) else (1e15 if n > 0 else -1e15)


row_number = any_number.map(_away_from_2_53)
simple_elem = st.one_of(integral, gv.strings, st.none(), st.booleans())
simple_arrays = st.lists(simple_elem, max_size=6)
rows = st.lists(st.fixed_dictionaries({'a': st.one_of(integral, st.integers(0, 3), st.sampled_from(['x', 'y', '1', '1.0', '2', '0', '2.0', 'true', 'null'])), 'b': row_number},
                                      optional={'c': st.one_of(st.none(), integral, gv.strings)}), max_size=6)
# category values that collide when a bucket key is built from anything but the value itself: the number n next to the strings that
# spell it, in either host spelling
rows_agg = st.lists(st.fixed_dictionaries({'a': st.sampled_from([0, 1, 2, 1, 2, '0', '1', '2', '1.0', '2.0', '0.0', None, True, 'true', 'null']),
                                           'b': st.one_of(integral, integral, row_number)}, optional={'c': st.sampled_from([1, '1', '1.0', None])}),
                    min_size=2, max_size=8)
nested = gv.values(2, st.one_of(st.none(), st.booleans(), any_number, gv.strings), 4)
EXPRS = ['a > 1', 'b', 'a + b', 'a == b', 'a * 2', 'stringNew(a)', 'a % 2 == 0', 'n + a', 'mathFloor(b)', 'a +', '(', 'a b', '']
ISO = ['2020-01-02', '2020-01-02T03:04:05Z', '2020-01-02T03:04:05.678+01:00', '2020-13-01', 'x']
SCHEMA = ['struct A', '  int a', '  optional float(>= 1) b', 'typedef int[len > 0] B', 'enum E', '  X', '']
CSV = ['a,b', '1,2', '1.0,x', '3,', '"q, r",4', 'a,b\n1,2\n3,4', 'a,b,a', '1,2,3,4', '5', 'a,a', ',', 'x,y,z,w,v', '']


def arg_strategy(spec, fname, length_hint):
    t = spec.get('type')
    name = spec.get('name', '')
    if spec.get('kv'):
        return nested
    if fname == 'datetimeNew':
        rng = {'year': (1900, 2100), 'month': (-30, 40), 'day': (-400, 400)}.get(name, (-5000, 5000))
        return st.one_of(st.integers(*rng), st.integers(*rng), st.integers(1, 12), any_number)
    if fname == 'jsonParse':
        return st.sampled_from(['[1, 2.0, {"a": 3}]', '1', '1.0', '{"a": [1e2, -0.5, 10]}', '"x"', '[', 'null', '[1.0,2]'])
    if fname == 'schemaValidate' and name == 'typeName':
        return st.sampled_from(['A', 'A', 'B'])
    if fname == 'schemaValidate' and name == 'value':
        return st.one_of(st.fixed_dictionaries({'a': integral}), st.fixed_dictionaries({'a': any_number}), nested)
    if fname == 'schemaParseEx' and name == 'lines':
        return st.one_of(st.just(list(SCHEMA)), st.just('struct A\n  int a'), st.lists(st.sampled_from(SCHEMA), max_size=4))
    if t == 'number':
        if spec.get('charcode'):
            return st.one_of(st.integers(32, 300), st.sampled_from([65, 97, 128512, 0x10FFFF, 0]), any_number)
        if length_hint is not None and name in ('index', 'start', 'end'):
            n = length_hint[0]
            return st.one_of(st.integers(0, max(0, n - 1)), st.integers(0, max(0, n - 1)), st.integers(-1, n + 2))
        if name in ('index', 'start', 'end', 'count', 'size', 'digits', 'radix', 'indent') or spec.get('integer'):
            return st.one_of(st.integers(-1, 8), st.integers(0, 4), st.integers(0, 3), st.sampled_from([10, 16, 2, 36, 22, 23, 25, 31, 100, 2020, 12]), any_number)
        return any_number
    if t == 'string':
        if spec.get('iso'):
            return st.sampled_from(ISO)
        if spec.get('schema'):
            return st.sampled_from(SCHEMA)
        if spec.get('csv'):
            return st.sampled_from(CSV)
        if name in ('expr', 'joinExpr', 'rightExpr'):
            return st.sampled_from(EXPRS)
        if name in ('fieldName', 'key', 'name'):
            return st.sampled_from(['a', 'b', 'c', 'zz'])
        if name == 'pattern':
            return st.sampled_from(['a+', '(\\d+)', '[', '^x$', '(?P<n>\\d)'])
        if name == 'flags':
            return st.sampled_from(['i', 'm', 's', 'g', 'x'])
        return st.one_of(gv.strings, st.sampled_from(['abc', 'a1b22c333', '12', '1.5', 'ff', 'a,b,c', ' x ', 'hello world', 'aXbXc']),
                         st.sampled_from(['abc', 'a1b22c333', 'hello world', 'aXbXc', 'ab']))
    if t == 'array':
        if fname == 'dataAggregate' and name == 'data':
            return st.one_of(rows, rows_agg, rows_agg)
        if name in ('data', 'leftData', 'rightData'):
            return rows
        if name == 'sorts':
            return st.lists(st.tuples(st.sampled_from(['a', 'b', 'c']), st.booleans()).map(list), min_size=1, max_size=2)
        if name == 'categoryFields':
            return st.lists(st.sampled_from(['a', 'c']), max_size=2)
        if length_hint is not None:
            n = length_hint[1].choice([0, 1, 1, 2, 3, 3, 4, 5, 6])
            return st.one_of(st.lists(simple_elem, min_size=n, max_size=n), st.lists(simple_elem, min_size=n, max_size=n),
                             st.lists(nested, min_size=n, max_size=n))
        return st.one_of(simple_arrays, simple_arrays, nested.filter(lambda v: isinstance(v, list)))
    if t == 'object':
        if name == 'aggregation':
            return st.fixed_dictionaries({'measures': st.lists(st.fixed_dictionaries(
                {'field': st.sampled_from(['a', 'b', 'b', 'b']), 'function': st.sampled_from(['count', 'sum', 'min', 'max', 'average', 'stddev'])}),
                min_size=1, max_size=2)}, optional={'categories': st.lists(st.sampled_from(['a', 'a', 'c']), max_size=2)})
        if name == 'variables':
            return st.fixed_dictionaries({'n': integral})
        if name == 'types':
            return st.just({'A': {'struct': {'name': 'A', 'members': [{'name': 'a', 'type': {'builtin': 'int'}}]}}})
        return st.dictionaries(st.sampled_from(['a', 'b', 'c', 'zz']), st.one_of(any_number, gv.strings, st.none(), simple_arrays), max_size=4)
    if t == 'datetime':
        return gv.datetimes
    if t == 'regex':
        return st.sampled_from([re.compile('a+'), re.compile('(\\d+)'), re.compile(','), re.compile('(?P<n>\\d)(x)?')])
    if t == 'function':
        return st.sampled_from([host_cmp, host_pred, gv.host_fn_b])
    if t == 'boolean':
        return st.one_of(st.booleans(), any_number, st.none())
    return st.one_of(any_number, any_number, gv.strings, nested, st.none(), st.booleans(), gv.datetimes)


SIZE_CAP = 3000


def clamp_sizes(name, args):
    """Counts, sizes, digit counts and exponents are kept <= SIZE_CAP in magnitude: `10 ** digits` with a huge int, or a
    string repeated 1e14 times, does not terminate / exhausts memory - that is outside C12 (and every other listed property)."""
    model = fn_model(name) or []
    out = []
    for i, a in enumerate(args):
        spec = model[i] if i < len(model) else (model[-1] if model and model[-1].get('lastArgArray') else {})
        if is_number(a) and (isinstance(a, int) or math.isfinite(a)) and abs(a) > SIZE_CAP and spec.get('type') == 'number' and \
                (spec.get('integer') or spec.get('name') in ('digits', 'count', 'size', 'base')):
            a = type(a)(SIZE_CAP if a > 0 else -SIZE_CAP)
        out.append(a)
    return out


anything = st.one_of(any_number, gv.strings, nested, st.none(), st.booleans(), gv.datetimes, gv.functions, gv.regexes, simple_arrays)


@st.composite
def call_strategy(draw, names):
    """Which function, how many arguments and which positions get a wrong-typed value are decided by a PRNG seeded from
    one drawn integer (Hypothesis' own distribution over nested choices collapses onto all-wild argument lists); the argument
    values themselves are Hypothesis draws, so they shrink."""
    import random
    name = draw(st.sampled_from(names))
    crnd = random.Random(draw(st.integers(0, 2 ** 31)))
    model = fn_model(name)
    args = []
    if model is None:
        return name, [draw(anything) for _ in range(crnd.randint(0, 4))]
    if name == 'mathLog' and crnd.random() < 0.35:
        base = crnd.choice([2, 3, 5, 7, 10, 10, 10, 12, 16])
        x = base ** crnd.randint(1, 12 if base < 10 else 9)
        return name, ([x, base] if crnd.random() < 0.8 or base != 10 else [x])          # exact powers: the quotient of logarithms is often off by one ulp
    if name == 'numberToFixed' and crnd.random() < 0.3:
        if crnd.random() < 0.6:
            return name, [crnd.choice([1, -1]) * crnd.randint(10 ** 12, 10 ** 15 - 1), crnd.randint(0, 6), crnd.choice([True, True, False, 1, None])]
        return name, [crnd.randint(-9, 9), crnd.randint(15, 30), crnd.choice([True, True, False])]
    if name == 'datetimeNew' and crnd.random() < 0.2:
        # huge time components that cancel each other (hour H with minute -60 H + m, ...): every component and every carry is an exactly
        # representable number, the result is an ordinary datetime
        ex = crnd.randint(3, 11)       # (magnitudes from the PRNG: Hypothesis' integers() favours small values)
        big = crnd.choice([1, -1]) * crnd.randint(10 ** ex, 10 ** (ex + 1))
        small = draw(st.integers(-90, 90))
        kind = crnd.choice(['hour-minute', 'minute-second', 'second-millisecond', 'hour-second'])
        h = mi = sec = ms = 0
        if kind == 'hour-minute':
            h, mi = big, -60 * big + small
        elif kind == 'minute-second':
            mi, sec = big, -60 * big + small
        elif kind == 'second-millisecond':
            sec, ms = big // 10, -1000 * (big // 10) + small
        else:
            h, sec = big // 10, -3600 * (big // 10) + small
        return name, [draw(st.integers(1990, 2030)), draw(st.integers(1, 12)), draw(st.integers(1, 28)), h, mi, sec, ms]
    if name == 'dataAggregate' and crnd.random() < 0.2:
        # ten or more values just below 1e15 in one category: every value (and the mean) is an exactly representable number although the
        # running total passes 2**53 - so the total itself is not asked for (sum), only average / min / max / count
        rows_big = draw(st.lists(st.fixed_dictionaries({'a': st.sampled_from([0, 1]), 'b': st.integers(0, 40).map(lambda k: 10 ** 15 - 1 - k)}), min_size=10, max_size=18))
        measures = draw(st.lists(st.fixed_dictionaries({'field': st.just('b'), 'function': st.sampled_from(['average', 'average', 'min', 'max', 'count'])}), min_size=1, max_size=2))
        agg = {'measures': measures}
        if crnd.random() < 0.5:
            agg['categories'] = ['a']
        return name, [rows_big, agg]
    mode = crnd.choice(['typed'] * 7 + ['wild', 'short', 'surplus'])
    hint = [0, crnd]
    for spec in model:
        if spec.get('lastArgArray'):
            if spec.get('schema') and crnd.random() < 0.7:
                args.extend(SCHEMA[:crnd.choice([2, 3, 4, 7])])
                continue
            if spec.get('charcode') and crnd.random() < 0.3:
                # a UTF-16 surrogate pair given as two codes (as JavaScript callers do), possibly between ordinary codes
                args.extend(draw(st.sampled_from([[55357, 56832], [72, 55357, 56832, 33], [0xD800, 0xDC00], [56832, 55357]])))
                continue
            for ix in range(crnd.randint(0, 4) if not spec.get('kv') else crnd.choice([0, 2, 2, 4, 4, 3])):
                if spec.get('kv') and ix % 2 == 0 and crnd.random() < 0.9:
                    args.append(draw(gv.key_strings))
                else:
                    args.append(draw(anything) if crnd.random() < 0.15 else draw(arg_strategy(spec, name, None)))
            continue
        optional = 'default' in spec or spec.get('nullable') or spec.get('type') in (None, 'boolean')
        if optional and crnd.random() < 0.25:
            break
        if mode == 'wild' or crnd.random() < 0.12:
            args.append(draw(anything))
        else:
            args.append(draw(arg_strategy(spec, name, hint)))
        if isinstance(args[-1], (list, str)) and hint[0] == 0:
            hint[0] = len(args[-1])
    if mode == 'short' and args:
        args = args[:crnd.randint(0, len(args) - 1)]
    if mode == 'surplus':
        args.append(draw(anything))
    return name, clamp_sizes(name, args[:7])


# ---- order independence in fresh processes -----------------------------------------------------------------------------------------------
ORDER_VALUES = {'i0': 0, 'f0': 0.0, 'n0': -0.0, 'i1': 1, 'f1': 1.0, 'tt': True, 'ff': False, 'i7': 7, 'f7': 7.0, 'big': 1e21, 'ibig': 10 ** 21, 'half': 0.5, 'nhalf': -0.5,
                'third': 1 / 3, 'e300': 1e300, 'tiny': 5e-324, 'i53': 2 ** 53, 'f53': float(2 ** 53), 'neg': -3, 'fneg': -3.0, 's0': '0', 's00': '0.0', 'sn0': '-0'}
ORDER_CALLS = ["stringNew(X)", "'' + X", "X + ''", "jsonStringify(X)", "arrayJoin(arrayNew(X, X), ',')", "numberToFixed(X, 2)", "numberToFixed(X, 0)",
               "jsonStringify(arrayNew(X))", "jsonStringify(objectNew('k', X), 2)", "stringNew(arrayNew(X))", "mathRound(X)", "mathAbs(X)", "mathSign(X)", "X == 0",
               "systemCompare(X, 0)", "systemType(X)", "numberParseFloat(stringNew(X))", "numberParseInt(stringNew(X))", "mathFloor(X)", "X * 1", "0 - X",
               "stringLength(stringNew(X))", "arrayIndexOf(arrayNew(0, 1, 7), X)", "objectGet(objectNew('0', 'zero', '1', 'one'), stringNew(X))", "mathMax(X, 0)"]
_ORDER_CODE = ('import sys, json\nfrom bare_script import parse_expression, evaluate_expression\n'
               'job = json.load(sys.stdin)\nout = []\n'
               'for ix, text in job["calls"]:\n'
               '    try:\n        r = evaluate_expression(parse_expression(text), {"globals": dict(job["globals"])})\n'
               '    except Exception as e:\n        r = "raised " + type(e).__name__\n'
               '    out.append([ix, type(r).__name__ + ":" + repr(r)])\n'
               'print(json.dumps(out))')


def check_order_independence(seed):
    """The same calls, evaluated in fresh interpreter processes in different orders, give the same results call by call (a library or operator answer
    may not depend on which values were seen before)."""
    import json
    import os
    import subprocess
    import sys
    names = sorted(ORDER_VALUES)
    calls = [(c.replace('X', n), n) for n in names for c in ORDER_CALLS]
    idx = list(range(len(calls)))
    rnd = random.Random(seed)
    shuffled = list(idx)
    rnd.shuffle(shuffled)
    orders = {'ascending by value name': idx, 'descending by value name': idx[::-1], 'seeded shuffle': shuffled, 'seeded shuffle reversed': shuffled[::-1]}
    src = os.path.dirname(os.path.dirname(impl.bs.module.__file__))
    results = {}
    for oname, order in orders.items():
        job = {'globals': ORDER_VALUES, 'calls': [[i, calls[i][0]] for i in order]}
        r = subprocess.run([sys.executable, '-c', _ORDER_CODE], input=json.dumps(job), capture_output=True, text=True, env=dict(os.environ, PYTHONPATH=src), timeout=300)
        if r.returncode != 0:
            raise RuntimeError('order-independence subprocess failed: ' + r.stderr[-300:])
        results[oname] = dict((i, v) for i, v in json.loads(r.stdout))
    first = next(iter(orders))
    for oname in orders:
        for i in idx:
            if results[oname][i] != results[first][i]:
                raise Violation('%s = %s when the calls run in the order "%s", %s in the order "%s" (fresh process each)' % (
                    calls[i][0], results[oname][i], oname, results[first][i], first), {'kind': 'order', 'seed': seed, 'call': calls[i][0]}, 'order-dependence')
    return len(calls), len(orders)


# ---- focused cases: the couplings that a uniformly drawn call rarely contains -------------------------------------------------------------------------
_agg_measures = st.lists(st.fixed_dictionaries({'field': st.just('b'), 'function': st.sampled_from(['count', 'sum', 'min', 'max', 'average', 'stddev', 'stddev'])},
                                               optional={'name': st.sampled_from(['m1', 'x'])}), min_size=1, max_size=2, unique_by=lambda m: m.get('name', 'b'))
_agg_small = st.lists(st.fixed_dictionaries({'a': st.sampled_from([1, 2, 1, '1', '1.0', '2', '2.0', 3]), 'b': st.sampled_from([1, 1, 9, 2, 4, 7, 10, 3, 0, -5, 446475, -911006, 819864])}),
                      min_size=2, max_size=9)
_agg_big = st.lists(st.fixed_dictionaries({'a': st.sampled_from([0, 1]), 'b': st.integers(0, 60).map(lambda k: 9 * 10 ** 14 + k)}), min_size=3, max_size=14)
_same_twice = st.sampled_from([257, 1000, 10 ** 6, -6, -1000, 2 ** 40, 255, 256, 3, 10 ** 15]).map(lambda n: [n, int(str(n))])      # (two distinct host objects)


@st.composite
def focus_strategy(draw):
    import random
    crnd = random.Random(draw(st.integers(0, 2 ** 31)))
    k = crnd.random()
    if k < 0.45:
        agg = {'measures': draw(_agg_measures)}
        if crnd.random() < 0.7:
            agg['categories'] = ['a']
        rows_ = draw(_agg_small if crnd.random() < 0.7 else _agg_big)
        if any(m['function'] == 'sum' for m in agg['measures']) and rows_ and rows_[0]['b'] > 10 ** 14:
            agg['measures'] = [dict(m, function='average') if m['function'] == 'sum' else m for m in agg['measures']]      # (the total passes 2**53)
        return 'dataAggregate', [rows_, agg]
    if k < 0.65:
        ex = crnd.randint(3, 12)
        big = crnd.choice([1, -1]) * crnd.randint(10 ** ex, 10 ** (ex + 1))
        small = crnd.randint(-90, 90)
        kind = crnd.choice(['hour-minute', 'minute-second', 'second-millisecond', 'hour-second'])
        h = mi = sec = ms = 0
        if kind == 'hour-minute':
            h, mi = big, -60 * big + small
        elif kind == 'minute-second':
            mi, sec = big, -60 * big + small
        elif kind == 'second-millisecond':
            sec, ms = big // 10, -1000 * (big // 10) + small
        else:
            h, sec = big // 10, -3600 * (big // 10) + small
        return 'datetimeNew', [crnd.randint(1990, 2030), crnd.randint(1, 12), crnd.randint(1, 28), h, mi, sec, ms]
    if k < 0.8:
        pair = draw(_same_twice)
        how = crnd.choice(['systemIs', 'systemIs', 'systemCompare', 'arrayIndexOf', 'mathMax'])
        if how == 'arrayIndexOf':
            return how, [[0, pair[0], 5], pair[1]]
        return how, pair
    if k < 0.9:
        return 'dataTop', [draw(rows), crnd.choice([1, 2, 3]), crnd.choice([None, ['a'], ['a', 'c']])][:crnd.choice([2, 3, 3])]
    return 'mathRound', [crnd.choice([1, -1]) * crnd.randint(10 ** 12, 10 ** 15 - 1), crnd.choice([0, 1, 2, 3, 4, 6])]


def plan(tier):
    names = function_names()
    k = 14 if tier == 'quick' else 16
    specs = [{'kind': 'calls', 'n': 2500 if tier == 'quick' else 60000, 'k': i, 'names': names[i::k]} for i in range(k)]
    specs += [{'kind': 'ops', 'n': 8000 if tier == 'quick' else 100000, 'k': i} for i in range(2 if tier == 'quick' else 4)]
    specs += [{'kind': 'order', 'k': i} for i in range(1 if tier == 'quick' else 8)]
    specs += [{'kind': 'focus', 'n': 2500 if tier == 'quick' else 40000, 'k': i} for i in range(1 if tier == 'quick' else 4)]
    return specs


def run_shard(ctx, spec):
    if spec['kind'] == 'order':
        seed = ctx.seed * 100 + spec['k']
        try:
            ncalls, norders = check_order_independence(seed)
        except Violation as v:
            ctx.violation(v)
            ncalls, norders = 0, 0
        ctx.case(digest(['order', seed]), True, ['order-independence', 'calls=%d' % ncalls, 'orders=%d' % norders], {'seed': seed, 'calls': ncalls, 'orders': norders})
        return
    if spec['kind'] == 'focus':
        def fprop(call):
            name, args = call
            ok, kind = check_call(name, args)
            ctx.case(digest(enc([name, args])), ok, ['focus:%s:%s' % (name, 'ok' if ok else 'failed')], {'fn': name, 'args': args})
        run_hypothesis(ctx, fprop, [focus_strategy()], spec['n'], salt=200 + spec['k'])
        return
    if spec['kind'] == 'calls':
        def prop(call):
            name, args = call
            ok, kind = check_call(name, args)
            nt = ok and any(has_integral(a) for a in args)
            ctx.case(digest(enc([name, args])), nt, ['fn:%s:%s' % (name, 'ok' if ok else 'failed')], {'fn': name, 'args': args})
        run_hypothesis(ctx, prop, [call_strategy(spec['names'])], spec['n'], salt=spec['k'])
        return

    def oprop(op, x, y):
        ok = check_operator(op, x, y)
        ctx.case(digest(enc([op, x, y])), ok and (has_integral(x) or has_integral(y)), ['op:' + op], {'op': op, 'x': x, 'y': y})
    operand = st.one_of(any_number, any_number, any_number, gv.strings, nested, gv.datetimes, st.none(), st.booleans())
    run_hypothesis(ctx, oprop, [st.sampled_from(BINARY_OPS + ['-u', '!u']), operand, operand], spec['n'], salt=100 + spec['k'])


def replay(detail):
    if detail.get('kind') == 'order':
        check_order_independence(detail['seed'])
    elif detail.get('kind') == 'op':
        check_operator(detail['op'], dec(detail['x']), dec(detail['y']))
    else:
        check_call(detail['fn'], dec(detail['args'], HOST))
