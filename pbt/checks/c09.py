"""C09 - the statement budget is exact, complete and monotone."""
import copy
import random

from hypothesis import strategies as st

from pbt.common import impl
from pbt.common.core import CaseTimeout, Violation, digest, enc, run_hypothesis
from pbt.gen import models as gm
from pbt.gen import programs as gp
from pbt.refsem import jumpvm
from pbt.refsem.values import values_equal
from pbt.checks import c08
from pbt.checks.c01 import gen_program, make_cc, make_probe

ID = 'C09'
LEVEL = 'exploration'
RULE = ('(A) seeded jump-level programs (markers, counters, bounded and unbounded label/jumpif loops, functions, recursion, library callbacks that '
        're-enter script functions through arrayIndexOf/arraySort, include trees 1-3 deep over a virtual file system, the same file included '
        'several times) executed by the implementation and by the independent VM under every limit L in 1..N+2 when N <= 60 (else 12 sampled '
        'limits plus N-1..N+2) and L = 0: completion vs. abort, exact error text, marker sequence and statementCount must agree with the '
        'reference count; (B) the structured programs of C01 extended with includes of structured files and data-helper callbacks '
        '(dataFilter/dataCalculatedField/dataJoin expressions calling a script function, with and without a variables object) under the same '
        'limits: effect bound (markers emitted <= L, each marker being one statement), monotonicity (every L >= N and L = 0 behaves like the '
        'unlimited run, every L < N raises exactly "Exceeded maximum script statements (L)" with a marker prefix of the unlimited run). '
        'Non-trivial: N >= 5 and at least one statement ran outside the top-level list (function, callback or include). Distinct by program.')
RULE += " Also in (A): dataFilter / dataCalculatedField / dataJoin callbacks with and without a variables object, failing part-way at a row that is not an object; include statements inside function bodies; included files ending in `return <expr>`; partial applications created by the top-level script and called inside includes / functions / data expressions. A run that emits more than 15 000 markers or is still going after minutes is reported as not stopped by the budget. Round 5: every third VM program runs in debug mode (the interpreter's own log lines are not markers; none may report the budget abort as a failed call)."
RULE += ' Round 7: runs that END with the include of a file that only defines functions (each definition is a statement of the run).'
RULE += ' Round 8: one options object used for three consecutive runs (a limit above N and one below): every run has the whole budget to itself.'
ASSUMPTIONS = ['every marker (systemLog) is its own statement, so the number of markers is a lower bound on the statements started',
               'non-terminating programs are run under a large finite limit (5000) in place of "unlimited"']

BIG = 5000
V = c08.V


def call_expr(name, *args):
    return {'function': {'name': name, 'args': list(args)}}


def gen_vm_program(rnd, size):
    """Returns (root model, files: name -> model, classes)."""
    classes = set()
    counter = [0]
    files = {}

    def tag(prefix='m'):
        counter[0] += 1
        return '%s%d' % (prefix, counter[0])

    def loop(var, bound, body, label):
        # var = 0 ; label: ; body ; var = var + 1 ; jumpif (var < bound) label        (bound None -> unconditional jump: never terminates)
        out = [{'expr': {'name': var, 'expr': {'number': 0.0}}}, {'label': label}] + body + [c08.inc_stmt(var)]
        out.append({'jump': {'label': label, 'expr': c08.cond(var, float(bound))}} if bound is not None else {'jump': {'label': label}})
        return out

    def block(n, depth, in_func, fname=None):
        out = []
        for _ in range(n):
            k = rnd.random()
            if k < 0.3:
                out.append(c08.log_stmt(tag()))
            elif k < 0.4:
                out.append(c08.inc_stmt('n'))
            elif k < 0.55 and depth < 2:
                bound = rnd.choice([1, 2, 3, 3, None if rnd.random() < 0.15 else 2])
                if bound is None:
                    classes.add('non-terminating-loop')
                out += loop(tag('i'), bound, block(rnd.randint(1, 3), depth + 1, in_func, fname), tag('L'))
                classes.add('loop')
            elif k < 0.62 and partial[0]:
                # a partial application created by the top-level script, called wherever this block runs (function body, included file)
                out.append({'expr': {'name': 'r', 'expr': call_expr('pp', *[{'number': float(rnd.randint(0, 3))}][:rnd.randint(0, 1)])}})
                classes.add('partial-call')
            elif k < 0.7 and funcs:
                f = rnd.choice(funcs)
                out.append({'expr': {'name': 'r', 'expr': call_expr(f, {'number': float(rnd.randint(0, 3))})}})
                classes.add('direct-call')
            elif k < 0.8 and funcs:
                f = rnd.choice(funcs)
                arr = call_expr('arrayNew', *[{'number': float(x)} for x in rnd.sample([1, 2, 3, 4, 5], rnd.randint(1, 4))])
                if rnd.random() < 0.5:
                    out.append({'expr': {'name': 'r', 'expr': call_expr('arrayIndexOf', arr, V(f))}})
                else:
                    out.append({'expr': {'name': 'r', 'expr': call_expr('arraySort', arr, V(f))}})
                classes.add('callback')
            elif k < 0.86 and funcs:
                # a data helper whose expression calls a script function once per row; with a variables object the helper evaluates
                # under a copy of the options; a row that is not an object makes the call fail part-way (null) - after the earlier
                # rows already ran the function
                f = rnd.choice(funcs)
                cells = [call_expr('objectNew', {'string': 'a'}, {'number': float(x)}) for x in rnd.sample([1, 2, 3, 4, 5], rnd.randint(1, 4))]
                if rnd.random() < 0.4:
                    cells.insert(rnd.randint(0, len(cells)), {'number': 7.0})
                    classes.add('data-helper-fails-part-way')
                args = [call_expr('arrayNew', *cells)]
                helper = rnd.choice(['dataFilter', 'dataCalculatedField', 'dataJoin'])
                fexpr = ('pp' if partial[0] and rnd.random() < 0.3 else f) + '(a)'
                variables = rnd.choice([None, None, call_expr('objectNew', {'string': 'q'}, {'number': 1.0}), call_expr('objectNew')])
                if helper == 'dataCalculatedField':
                    args.append({'string': 'b'})
                if helper == 'dataJoin':
                    # the right rows are evaluated first, then the left rows; a row that is the string 'a' makes the evaluation fail at that row
                    rcells = [call_expr('objectNew', {'string': 'a'}, {'number': float(x)}) for x in rnd.sample([1, 2, 3, 4, 5], rnd.randint(1, 3))]
                    if rnd.random() < 0.4:
                        rcells.insert(rnd.randint(0, len(rcells)), {'string': 'a'})
                        classes.add('data-helper-fails-part-way')
                    args[0] = call_expr('arrayNew', *[c if 'number' not in c else {'string': 'a'} for c in cells])
                    args.append(call_expr('arrayNew', *rcells))
                    args.append({'string': fexpr})
                    if variables is not None:
                        args += [{'variable': 'null'}, {'variable': 'false'}]
                else:
                    args.append({'string': fexpr})
                if variables is not None:
                    args.append(variables)
                    classes.add('data-helper-with-variables')
                out.append({'expr': {'name': 'r', 'expr': call_expr(helper, *args)}})
                classes.add('callback')
            elif k < 0.92 and len(files) < 4 and ((not in_func and depth == 0) or (in_func and rnd.random() < 0.5)):
                # (an include statement inside a function body runs when the function does - also when a library function calls it back)
                if in_func:
                    classes.add('include-inside-function')
                name = 'inc%d.bare' % len(files)
                files[name] = None      # reserve the name (acyclic: a file only includes files created after it)
                files[name] = {'statements': block(rnd.choice([0, 1, 2, 3, 4, 5]), 1, False) + ([rnd.choice([{'return': {}}, {'return': {'expr': {'number': 1.0}}}, {'return': {'expr': V('n')}}]), c08.log_stmt(tag('dead'))] if rnd.random() < 0.3 else [])}
                incs = [{'url': name}] * rnd.choice([1, 1, 2, 3])
                for inc in incs:
                    out.append({'include': {'includes': [inc]}})
                classes.add('include')
            else:
                out.append(c08.log_stmt(tag()))
        return out

    funcs = []
    partial = [False]
    root = []
    for i in range(rnd.randint(0, 3)):
        name = 'fn%d' % i
        if rnd.random() < 0.12:
            # a function with an empty body: calling it starts no statement at all (also as statement L of a run limited to L)
            root.append({'function': {'name': name, 'args': ['a1', 'a2'], 'statements': []}})
            funcs.append(name)
            classes.add('empty-function')
            continue
        if rnd.random() < 0.35:
            # a one-statement function (only a return): predicate / comparator / one-line recursion
            kind = rnd.choice(['pred', 'cmp', 'rec'])
            if kind == 'pred':
                e = {'binary': {'op': '>', 'left': V('a1'), 'right': {'number': float(rnd.randint(0, 4))}}}
            elif kind == 'cmp':
                e = {'binary': {'op': '-', 'left': V('a1'), 'right': V('a2')}}
            else:
                e = call_expr('if', {'binary': {'op': '>', 'left': V('a1'), 'right': {'number': 0.0}}},
                              {'binary': {'op': '+', 'left': call_expr(name, {'binary': {'op': '-', 'left': V('a1'), 'right': {'number': 1.0}}}),
                                          'right': {'number': 1.0}}}, {'number': 0.0})
                classes.add('recursion')
            classes.add('one-statement-function')
            root.append({'function': {'name': name, 'args': ['a1', 'a2'], 'statements': [{'return': {'expr': e}}]}})
            funcs.append(name)
            continue
        body = block(rnd.randint(1, 4), 1, True, name)
        if rnd.random() < 0.3:
            # bounded (or, rarely, unbounded) recursion on the argument
            guard = c08.cond('a1', 0.5) if rnd.random() < 0.85 else {'number': 0.0}
            if 'number' in guard:
                classes.add('unbounded-recursion')
            body = [{'jump': {'label': 'base', 'expr': guard}}, c08.log_stmt(tag('rec')),
                    {'expr': {'name': 'q', 'expr': call_expr(name, {'binary': {'op': '-', 'left': V('a1'), 'right': {'number': 1.0}}})}},
                    {'label': 'base'}] + body
            classes.add('recursion')
        body.append({'return': {'expr': {'binary': {'op': '-', 'left': V('a1'), 'right': {'number': 2.0}}}}})
        root.append({'function': {'name': name, 'args': ['a1', 'a2'], 'statements': body}})
        funcs.append(name)
    if funcs and rnd.random() < 0.4:
        root.append({'expr': {'name': 'pp', 'expr': call_expr('systemPartial', V(rnd.choice(funcs)), {'number': float(rnd.randint(0, 2))})}})
        partial[0] = True
    root += block(rnd.randint(2, 4 + size), 0, False)
    if rnd.random() < 0.15 and len(files) < 5:
        # the run ENDS with the include of a file that only defines functions (a library): each definition is a statement of the run
        name = 'lib%d.bare' % len(files)
        files[name] = {'statements': [{'function': {'name': 'lib%d_%d' % (len(files), j), 'args': ['a1'], 'statements': [c08.log_stmt(tag('libfn')), {'return': {'expr': V('a1')}}]}}
                                       for j in range(rnd.randint(1, 4))]}
        root.append({'include': {'includes': [{'url': name}] * rnd.choice([1, 1, 2])}})
        classes.add('include')
        classes.add('run-ends-with-functions-only-include')
    elif rnd.random() < 0.3:
        root.append({'return': {'expr': V('n')}})
    return {'statements': root}, files, classes


MARKER_CAP = 3 * 5000       # no run of this check may emit more markers than that (each is a statement; the largest budget is BIG)


def _capped_log(logs):
    def log(m):
        logs.append(('log', m))
        if len(logs) > MARKER_CAP:
            raise impl.bs.RuntimeError('harness: more than %d markers - the statement budget did not stop the run' % MARKER_CAP)
    return log


def _debug_split(logs, d):
    """In debug mode the interpreter logs its own lines ("BareScript: ..."): they are not markers of the script - but the budget abort is not a failed
    call, so none of them may report it as one."""
    own = [m for m in logs if m[0] == 'log' and isinstance(m[1], str) and m[1].startswith('BareScript: ')]
    for m in own:
        if 'failed with error: Exceeded maximum script statements' in m[1]:
            raise Violation('the budget abort is logged as a failed call: %r (an observable effect the unlimited run does not have)' % (m[1],), d, 'abort-logged-as-failure')
    logs[:] = [m for m in logs if m not in own]


def run_impl_model(model, files_text, limit, globals0, debug=False, d=None):
    logs = []
    g = copy.deepcopy(globals0)
    opts = {'globals': g, 'logFn': _capped_log(logs), 'maxStatements': limit, 'fetchFn': lambda req: files_text.get(req['url'])}
    if debug:
        opts['debug'] = True
    try:
        res = ('ok', impl.bs.execute_script(model, opts))
    except CaseTimeout:
        res = ('runtime-error', 'harness: the run was still going after minutes - the statement budget did not stop it')
    except impl.bs.RuntimeError as e:
        res = ('runtime-error', str(e))
    except RecursionError:
        res = ('recursion', None)
    except Exception as e:  # pylint: disable=broad-except
        res = ('host-exception', '%s: %s' % (type(e).__name__, e))
    if debug:
        _debug_split(logs, d or {})
    return res, logs, opts.get('statementCount'), g


def _vm_rows(vm, data, text):
    """The helpers as the documentation reads: the expression `<fn>(a)` is evaluated once per row, in order, with the row's members
    as variables; a row that is not an object makes the whole call fail (null)."""
    fn = vm.g.get(text[:-3])
    for row in data:
        if not isinstance(row, dict):
            raise _HelperFails()        # (a number row or the string 'a': looking the variable a up in it fails)
        yield row, vm.call_value(fn, [row.get('a')])


class _HelperFails(Exception):
    pass


def _vm_data_filter(args, vm):
    try:
        return [row for row, keep in _vm_rows(vm, args[0], args[1]) if jumpvm.interp.truthy(keep)]
    except _HelperFails:
        return None


def _vm_data_join(args, vm):
    """Right rows first, then left rows (the result itself is not observed by this check)."""
    try:
        for _ in _vm_rows(vm, args[1], args[2]):
            pass
        for _ in _vm_rows(vm, args[0], args[2]):
            pass
    except _HelperFails:
        return None
    return []


def _vm_data_calculated_field(args, vm):
    try:
        for row, value in _vm_rows(vm, args[0], args[2]):
            row[args[1]] = value
        return args[0]
    except _HelperFails:
        return None


def run_ref_model(model, files, limit, globals0):
    logs = []
    g = copy.deepcopy(globals0)
    vm = jumpvm.JumpVM(g, logs, max_statements=limit, fetch=lambda loc: files[loc]['statements'] if loc in files else None,
                       host={'dataFilter': _vm_data_filter, 'dataCalculatedField': _vm_data_calculated_field, 'dataJoin': _vm_data_join})
    try:
        res = ('ok', vm.run_model(model))
    except jumpvm.VMRuntimeError as e:
        res = ('runtime-error', e.message)
    except jumpvm.interp.RefRuntimeError as e:
        res = ('runtime-error', 'Undefined function "%s"' % e.name)
    except (RecursionError, jumpvm.interp.Indeterminate):
        res = ('recursion', None)      # host recursion limit / an unspecified library result: the case is discarded
    return res, logs, vm.count, g


def limits_for(rnd, n, terminates):
    if not terminates:
        return sorted(set([1, 2, 3, 5, 10, 57, 200, 1000] + [rnd.randint(1, 2000) for _ in range(6)]))
    if n <= 60:
        return list(range(1, n + 3))
    return sorted(set([1, 2, 3, n - 2, n - 1, n, n + 1, n + 2, 2 * n] + [rnd.randint(1, n) for _ in range(12)]))


def check_vm_program(model, files, seed):
    d = {'kind': 'vm', 'model': model, 'files': files, 'seed': seed}
    rnd = random.Random(seed)
    files_text = {name: '\n'.join(gm.print_model(m)) + '\n' for name, m in files.items()}
    g0 = {'n': 0.0}
    ref_big = run_ref_model(model, files, BIG, g0)
    if ref_big[0][0] == 'recursion':
        return None
    terminates = not (ref_big[0][0] == 'runtime-error' and ref_big[0][1].startswith('Exceeded'))
    n = ref_big[2]
    outside = None
    for limit in [0] + limits_for(rnd, n, terminates):
        if limit == 0 and not terminates:
            continue
        a = run_impl_model(model, files_text, limit, g0, debug=seed % 3 == 0, d=dict(d, limit=limit, debug=True))
        b = run_ref_model(model, files, limit, g0)
        if a[0][0] == 'recursion' or b[0][0] == 'recursion':
            continue
        dd = dict(d, limit=limit)
        if a[0][0] != b[0][0] or (a[0][0] == 'runtime-error' and a[0][1] != b[0][1]):
            raise Violation('under maxStatements=%d the run ends with %r; counting every started statement gives %r (N=%d)' % (limit, a[0], b[0], n), dd,
                            'budget-outcome')
        if a[1] != b[1]:
            raise Violation('under maxStatements=%d the markers are %r..., expected %r...' % (limit, a[1][-3:], b[1][-3:]), dd, 'budget-markers')
        if a[2] != b[2] and a[0][0] == 'ok':
            # (the count left in the caller's options after an aborted run is not specified - an abort inside an include leaves the
            # includer's count behind - so it is compared for completed runs only)
            raise Violation('under maxStatements=%d statementCount is %r, %r statements were started' % (limit, a[2], b[2]), dd, 'budget-count')
        nlog = sum(1 for m in a[1] if m[0] == 'log')
        if limit > 0 and nlog > limit:
            raise Violation('under maxStatements=%d the script emitted %d markers (each its own statement)' % (limit, nlog), dd, 'effect-bound')
    # one options object used for several runs (a host that keeps its configuration): every run has the whole budget to itself, whatever the run before
    # it did - completed, or was aborted by the budget
    for limit in ([n + 1, max(1, n // 2)] if terminates else [57]):
        logs = []
        opts = {'logFn': _capped_log(logs), 'maxStatements': limit, 'fetchFn': lambda req: files_text.get(req['url'])}
        seen = []
        for _ in range(3):
            del logs[:]
            opts['globals'] = copy.deepcopy(g0)
            try:
                res = ('ok', impl.bs.execute_script(model, opts))
            except impl.bs.RuntimeError as e:
                res = ('runtime-error', str(e))
            except RecursionError:
                res = ('recursion', None)
            except Exception as e:  # pylint: disable=broad-except
                res = ('host-exception', '%s: %s' % (type(e).__name__, e))
            seen.append((res[0], res[1] if res[0] != 'ok' else None, list(logs), opts.get('statementCount') if res[0] == 'ok' else None))
        if any(x[0] == 'recursion' for x in seen):
            continue
        if seen[1] != seen[0] or seen[2] != seen[0]:
            k = 1 if seen[1] != seen[0] else 2
            raise Violation('with one options object (maxStatements=%d) used for three runs, run %d ends with %r after %d markers, run 1 with %r after %d markers' % (
                limit, k + 1, seen[k][:2], len(seen[k][2]), seen[0][:2], len(seen[0][2])), dict(d, limit=limit, reuse=True), 'budget-carried-over')
    return n, terminates


# ---- (B) structured programs with includes and data-helper callbacks ---------------------------------------------------

INC_FILES = {
    'inc1.bare': "systemLog('i1 start')\nkk = 0\nwhile kk < 3:\n    kk = kk + 1\n    systemLog('i1 ' + kk)\nendwhile\nsystemLog('i1 end')\n",
    'inc2.bare': "include 'inc1.bare'\nsystemLog('i2')\ninclude 'inc1.bare'\n",
    'empty.bare': "",
    'comment.bare': "# nothing but a comment\n\n",
    'inc4.bare': "systemLog('i4 a')\nsystemLog('i4 b')\nif true:\n    return 'value'\nendif\nsystemLog('never')\n",
    'inc3.bare': "function fromInc(aa):\n    systemLog('fromInc ' + aa)\n    return aa\nendfunction\nfromInc(1)\nfromInc(2)\nsystemLog('i3')\nreturn\nsystemLog('never')\n",
}
CALLBACK_PRELUDE = ["function chk(aa):", "    systemLog('chk a')", "    systemLog('chk b')", "    return aa > 1", "endfunction",
                    "function one(aa):", "    return aa > 1", "endfunction", "function deep(nn):", "    return if(nn > 0, deep(nn - 1) + 1, 0)", "endfunction",
                    "dd = arrayNew(objectNew('a', 1), objectNew('a', 2), objectNew('a', 3), objectNew('a', 4), objectNew('a', 0))"]
CALLBACK_CALLS = ["dataFilter(dd, 'chk(a)', objectNew('q', 1))", "dataFilter(dd, 'chk(a)')", "dataCalculatedField(dd, 'b', 'chk(a)', objectNew('q', 1))",
                  "dataCalculatedField(dd, 'b', 'chk(a)')", "arrayIndexOf(arrayNew(1, 2, 3), chk)", "dataJoin(dd, dd, 'chk(a)', null, false, objectNew('q', 1))",
                  "dataJoin(dd, dd, 'chk(a)')", "arraySort(arrayNew(3, 1, 2), chk)", "systemLog(arrayIndexOf(arrayNew(0, 1, 2, 3), one))",
                  "systemLog(deep(6))", "dataFilter(dd, 'one(a)', objectNew('q', 1))", "systemLog(deep(3) + deep(2))",
                  # recursion close to (but within) what the host stack allows: the outcome must not depend on the budget
                  "systemLog(deep(90))", "systemLog(deep(120))", "systemLog(deep(140) + deep(5))",
                  "dataFilter(dd, 'chk(a)', objectNew())", "dataCalculatedField(dd, 'b', 'chk(a)', objectNew())", "dataJoin(dd, dd, 'chk(a)', null, false, objectNew())"]


def gen_structured(rnd, size):
    prog, src, globals0, pg = gen_program(rnd, size)
    extra = []
    classes = set()
    for _ in range(rnd.choice([0, 1, 1, 2, 3])):
        extra.append("include '%s'" % rnd.choice(sorted(INC_FILES)))
        classes.add('include')
    tail = []
    if rnd.random() < 0.2:
        tail = ["include '%s'" % rnd.choice(['empty.bare', 'comment.bare'])] * rnd.choice([1, 2])      # the run ENDS with an include that starts no statement
        classes.add('include')
    if rnd.random() < 0.6:
        extra += CALLBACK_PRELUDE
        for _ in range(rnd.randint(1, 5)):
            c = rnd.choice(CALLBACK_CALLS)
            extra.append(c)
            classes.add('data-helper-with-variables' if 'objectNew(' in c and 'dd,' in c and "'q'" in c else 'callback')
    if pg.funcs:
        classes.add('direct-call')
    return '\n'.join(extra) + '\n' + src + '\n'.join(tail) + '\n', {k: v for k, v in globals0.items()}, classes


def run_structured(model, limit, globals0):
    logs = []
    g = copy.deepcopy(globals0)
    g['probe'] = make_probe(logs)
    g['cc'] = make_cc(logs, [True, False, True])
    opts = {'globals': g, 'logFn': _capped_log(logs), 'maxStatements': limit, 'fetchFn': lambda req: INC_FILES.get(req['url'])}
    try:
        res = ('ok', impl.bs.execute_script(model, opts))
    except CaseTimeout:
        res = ('runtime-error', 'harness: the run was still going after minutes - the statement budget did not stop it')
    except impl.bs.RuntimeError as e:
        res = ('runtime-error', str(e))
    except RecursionError:
        res = ('recursion', None)
    except Exception as e:  # pylint: disable=broad-except
        res = ('host-exception', '%s: %s' % (type(e).__name__, e))
    user = {k: v for k, v in g.items() if not callable(v)}
    return res, logs, opts.get('statementCount'), user


def check_structured(src, globals0, seed):
    d = {'kind': 'structured', 'source': src, 'globals': enc(globals0), 'seed': seed}
    rnd = random.Random(seed)
    model = impl.parse_valid(src, d)
    big = run_structured(model, BIG, globals0)
    if big[0][0] in ('recursion', 'host-exception'):
        return None
    terminates = not (big[0][0] == 'runtime-error' and big[0][1].startswith('Exceeded maximum'))
    n = big[2]
    for limit in [0] + limits_for(rnd, n, terminates):
        if limit == 0 and not terminates:
            continue
        a = run_structured(model, limit, globals0)
        dd = dict(d, limit=limit)
        nlog = sum(1 for m in a[1] if m[0] == 'log')
        if limit > 0 and nlog > limit:
            raise Violation('under maxStatements=%d the script emitted %d markers (each marker is its own statement)' % (limit, nlog), dd, 'effect-bound')
        if limit > 0 and a[2] is not None and a[2] > limit + 1:
            raise Violation('under maxStatements=%d statementCount reached %d' % (limit, a[2]), dd, 'count-exceeds-limit')
        if limit == 0 or (terminates and limit >= n):
            same = a[0][0] == big[0][0] and a[1] == big[1] and a[2] == big[2] and \
                (a[0][0] != 'ok' or values_equal(a[0][1], big[0][1], lambda x, y: True)) and (a[0][0] == 'ok' or a[0] == big[0]) and \
                sorted(a[3]) == sorted(big[3]) and all(values_equal(a[3][k], big[3][k], lambda x, y: True) for k in a[3])
            if not same:
                raise Violation('a run that completes after N=%d statements behaves differently under maxStatements=%d: %r vs %r' % (n, limit, a[0], big[0]),
                                dd, 'not-monotone')
        else:
            want = ('runtime-error', 'Exceeded maximum script statements (%d)' % limit)
            if a[0] != want:
                raise Violation('under maxStatements=%d (< N=%s) the run ends with %r, expected %r' % (limit, n if terminates else 'inf', a[0], want), dd,
                                'abort-missing')
            if a[1] != big[1][:len(a[1])]:
                raise Violation('under maxStatements=%d the observable effects are not a prefix of the unlimited run' % limit, dd, 'not-a-prefix')
    return n, terminates


DEEP_SHAPES = {
    'expression': "function deep(nn):\n    return if(nn > 0, deep(nn - 1) + 1, 0)\nendfunction\nsystemLog('total = ' + deep(%d))\nsystemLog('after')\n",
    'statement': "function deep(nn):\n    if nn <= 0:\n        return 0\n    endif\n    rr = deep(nn - 1)\n    return rr + 1\nendfunction\nsystemLog('total = ' + deep(%d))\nsystemLog('after')\n",
}


def check_deep_recursion(shape, depth):
    """Recursion deeper than the host stack allows (the call that overflows fails and yields null; the reference cannot know where). Only the
    part of the property that needs no reference is checked: a run that completes after N statements behaves identically under every limit >= N."""
    import sys
    src = DEEP_SHAPES[shape] % depth
    d = {'kind': 'deep', 'shape': shape, 'depth': depth, 'source': src}
    model = impl.parse_valid(src, d)
    saved = sys.getrecursionlimit()
    sys.setrecursionlimit(1000)          # (the runner raises the limit for its own deep structures; an embedding host runs with the default)
    try:
        big = run_structured(model, 0, {})
        if big[0][0] != 'ok':
            return None
        n = big[2]
        for limit in (n, n + 1, n + 2, 2 * n, 10 * n, 1000000):
            a = run_structured(model, limit, {})
            if a[0] != big[0] or a[1] != big[1] or a[2] != big[2]:
                raise Violation('%s recursion of depth %d completes after N=%d statements (%r), but under maxStatements=%d it gives %r %r (count %r)' % (
                    shape, depth, n, big[1][:1], limit, a[0], a[1][:1], a[2]), dict(d, limit=limit), 'not-monotone-deep')
    finally:
        sys.setrecursionlimit(saved)
    return n


def plan(tier):
    k = 8 if tier == 'quick' else 16
    specs = [{'kind': 'vm', 'n': 800 if tier == 'quick' else 3000, 'k': i} for i in range(k)]
    specs += [{'kind': 'structured', 'n': 700 if tier == 'quick' else 2500, 'k': i} for i in range(k)]
    return specs


def run_shard(ctx, spec):
    if spec['kind'] == 'vm':
        def prop(seed, size):
            rnd = random.Random(seed)
            model, files, classes = gen_vm_program(rnd, size)
            res = check_vm_program(model, files, seed)
            if res is None:
                ctx.discard('python-recursion-limit')
                return
            n, terminates = res
            outside = bool(classes & {'direct-call', 'callback', 'include', 'recursion'})
            ctx.case(digest([model, files]), n >= 5 and outside, ['vm', 'terminates' if terminates else 'non-terminating', 'N<=60' if n <= 60 else 'N>60'] + sorted(classes),
                     {'model': '\n'.join(gm.print_model(model))[:600], 'files': sorted(files), 'N': n})
        run_hypothesis(ctx, prop, [st.integers(0, 2 ** 32 - 1), st.integers(1, 5)], spec['n'], salt=spec['k'])
        return

    if spec['k'] == 0:
        for shape in DEEP_SHAPES:
            for depth in (150, 230, 300, 450, 700):
                try:
                    n = check_deep_recursion(shape, depth)
                except Violation as v:
                    ctx.violation(v)
                    n = 0
                ctx.case(digest(['deep', shape, depth]), True, ['deep-recursion', 'deep:' + shape], {'shape': shape, 'depth': depth, 'N': n})

    def sprop(seed, size):
        rnd = random.Random(seed)
        src, globals0, classes = gen_structured(rnd, size)
        res = check_structured(src, globals0, seed)
        if res is None:
            ctx.discard('host-exception-or-recursion')
            return
        n, terminates = res
        ctx.case(digest([src, enc(globals0)]), n >= 5 and bool(classes), ['structured', 'terminates' if terminates else 'non-terminating',
                                                                          'N<=60' if n <= 60 else 'N>60'] + sorted(classes), {'source': src[:600], 'N': n})
    run_hypothesis(ctx, sprop, [st.integers(0, 2 ** 32 - 1), st.integers(1, 4)], spec['n'], salt=30 + spec['k'])


def replay(detail):
    if detail.get('kind') == 'deep':
        check_deep_recursion(detail['shape'], detail['depth'])
        return
    from pbt.common.core import dec
    from pbt.gen import values as gv
    if detail.get('kind') == 'vm':
        check_vm_program(detail['model'], detail['files'], detail.get('seed', 1))
    else:
        check_structured(detail['source'], dec(detail['globals'], {'host_fn_a': gv.host_fn_a, 'host_fn_b': gv.host_fn_b}), detail.get('seed', 1))
