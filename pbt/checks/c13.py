"""C13 - numbers survive conversion to text and back; integers print without a fraction."""
import math
import re
import struct

from hypothesis import strategies as st

from pbt.common import impl
from pbt.common.core import Violation, digest, enc, dec, run_hypothesis
from pbt.gen import values as gv

ID = 'C13'
LEVEL = 'exploration'
RULE = ('Finite doubles: Hypothesis floats, uniform random 64-bit patterns, every power of ten 1e-320..1e308 and its neighbours, integers '
        'around 2**53 / 1e15 / 1e16 / 1e21, subnormals, +-0, and int spellings below 2**53. For each x, through a script: the four '
        'stringification routes agree on one text t, numberParseFloat(t) == x, t re-parses as a source literal (x >= 0) or evaluates to x, '
        'integral |x| < 1e16 print as -?digits, no text ends in a zero fraction. Parser strings: generated valid decimals (must equal '
        'float(text)), numeric near-misses (must be null) and arbitrary text (null or a finite number, never an exception). '
        'Non-trivial: x is non-integral, >= 1e16 or < 1e-4 in magnitude (exponent forms), or the string is a near-miss; distinct by value/text.')
RULE += ' Also: integral numbers as the library hands them to a script (mathFloor, mathCeil, numberParseInt, jsonParse, mathAbs, mathMax), magnitudes up to 1e308.'
RULE += ' Round 7: texts padded to 4 290-9 000 characters (leading zeros, surrounding blanks, trailing fraction zeros); numberParseInt of any decimal text with a fraction point or an exponent must be null; parseInt / parseFloat called under their expression names must agree with the script functions.'
RULE += ' Round 8: an underscore at either end of / doubled inside a number text, a radix prefix followed by a sign, a blank or another prefix (null in every radix).'
ASSUMPTIONS = [
    'CPython float repr is the shortest round-trip representation (trusted)',
    'Python-specific leniencies of float()/int() (underscores, non-ASCII digits, surrounding white space) are not asserted either way',
    'the sign of zero in text is not asserted (-0 prints as "-0")',
]

NEAR_MISSES = ['12abc', '1.2.3', '1e', '--1', '0x1F', '1,5', '', ' ', '\t', 'inf', '-inf', 'Infinity', '-Infinity', 'nan', 'NaN', '1e400', '-1e400',
               'e5', '.', '-', '+', '1 2', '1e+', '1e5.5', 'abc', '१२x', '0b1', '1/2', '$1', '1f', 'null', 'true',
               '(1.5)', '(12.50)', ' ( 0.25 ) ', '(0.0)', '(1)', '1.5)', '[1.5]', '<1.5>', '1.5-', '1.5+', '1.5%', '1.5 USD', '1 000', "1'000", '1.5e3x', '+-1', '1..5', '\u00bd', '\u2460']
INT_NEAR_MISSES = ['12abc', '1.5', '1e5', '', ' ', '--1', '0x1F', '1,5', 'inf', 'nan', '1 2', 'abc', '.', '-', '1.0', 'z',
                   '\ufb00', '\u33c4', '\u339d', '\u216b', '\u2177', '\u00b2', '1\u2460', '\u210c', '-\u24d5\u24d5', '\uff26\uff26', '(1)', '1)', 'f f', 'ff.', '+-f']

# texts that are not integers in any radix: compatibility characters that merely LOOK like digits / letters, stray punctuation
# an underscore at either end or doubled is not Python's digit grouping either; a radix prefix followed by a sign / a blank / another prefix is no integer text
UNDERSCORE_MISSES = ['_12', '12_', ' _7 ', '__5', '1.5e3_', '_-0.25', '_', '1__0', '-_5', '5_e3', '_1_', '12 _', '_ 12']
PREFIX_MISSES = ['0x-5', '0x+1f', '0x 7', '0X -1', '0x--1', '0b-1', '0o+7', '-0x-5', '0x 0x10', '0b 1', '0o 7']
NEAR_MISSES += UNDERSCORE_MISSES + PREFIX_MISSES
INT_NEAR_MISSES += UNDERSCORE_MISSES + PREFIX_MISSES
NEVER_INT = [t for t in UNDERSCORE_MISSES if t != '5_e3'] + PREFIX_MISSES + ['\ufb00', '\u33c4', '\u339d', '\u216b', '\u2177', '\u00b2', '1\u2460', '\u210c', '-\u24d5\u24d5', '(1)', '1)', 'f f', 'ff.', '+-f', '', ' ', '.', '-', '1,5', '--1', '1 2']
_m = {}
# an integral number as the library hands it to a script (mathFloor / mathCeil / mathRound / numberParseInt / jsonParse results need not be the
# same host type as a literal): it must print and re-parse like the literal of the same value
VIAS = {'floor': 'x = mathFloor(x)', 'ceil': 'x = mathCeil(x)', 'parseInt': 'x = numberParseInt(digits)', 'jsonParse': 'x = jsonParse(digits)',
        'abs': 'x = mathAbs(x)', 'max': 'x = mathMax(x, x)', 'arith': 'x = mathFloor(x) + 0'}


def models():
    if not _m:
        _m['routes'] = impl.bs.parse_script('\n'.join([
            "r1 = '' + x",
            "r2 = x + ''",
            'r3 = stringNew(x)',
            "r4 = arrayJoin(arrayNew(x), ',')",
            "r5 = arrayJoin(arrayNew(x, x), ',')",
            'systemLog(x)',
            'back = numberParseFloat(r1)',
            'return arrayNew(r1, r2, r3, r4, r5, back)',
        ]))
        body = impl.bs.parse_script('return 0')       # (placeholder: the variants below share the routes)
        del body
        for via, first in VIAS.items():
            _m['routes:' + via] = impl.bs.parse_script(first + '\n' + '\n'.join([
                "r1 = '' + x", "r2 = x + ''", 'r3 = stringNew(x)', "r4 = arrayJoin(arrayNew(x), ',')", "r5 = arrayJoin(arrayNew(x, x), ',')", 'systemLog(x)',
                'back = numberParseFloat(r1)', 'return arrayNew(r1, r2, r3, r4, r5, back)']))
        _m['pf'] = impl.bs.parse_script('return numberParseFloat(s)')
        _m['pi'] = impl.bs.parse_script('return numberParseInt(s)')
        _m['pir'] = impl.bs.parse_script('return numberParseInt(s, r)')
    return _m


def check_number(x, via=None):
    d = {'kind': 'number', 'x': enc(x), 'via': via}
    log = []
    if via is None:
        out = impl.run_model(models()['routes'], {'x': x}, log, debug=True)
    else:
        if via == 'abs' and x < 0:
            via = d['via'] = 'max'
        out = impl.run_model(models()['routes:' + via], {'x': x, 'digits': '%d' % int(x)}, log, debug=True)
    if out.kind != 'ok' or not isinstance(out.value, list):
        raise Violation('stringifying %r failed: %r' % (x, out), d, 'route-fails')
    r1, r2, r3, r4, r5, back = out.value
    texts = [r1, r2, r3, r4] + log[:1]
    if len(log) != 1 or any(not isinstance(t, str) for t in texts) or len(set(texts)) != 1 or r5 != r1 + ',' + r1:
        raise Violation('stringification routes disagree for %r: %r log=%r' % (x, out.value[:5], log), d, 'routes-disagree')
    t = r1
    d['text'] = t
    if back is None or isinstance(back, bool) or not isinstance(back, (int, float)) or back != x:
        raise Violation('numberParseFloat(%r) = %r, expected %r' % (t, back, x), d, 'parse-back')
    if via is not None and len(t) > 40 and re.fullmatch(r'-?\d+', t) and int(t) == int(x):
        return t        # (a long digit string that denotes x exactly: fine - and it parsed back to x above)
    if float(x) == int(float(x)) and abs(x) < 1e16:
        if not re.fullmatch(r'-?\d+', t):
            raise Violation('integral %r prints as %r' % (x, t), d, 'integral-fraction')
    if re.search(r'\.\d*?0+$', t) or t.endswith('.'):
        raise Violation('%r prints with a zero fraction: %r' % (x, t), d, 'trailing-zeros')
    try:
        expr = impl.bs.parse_expression(t)
    except impl.bs.ParserError as e:
        raise Violation('text %r of %r is not accepted as a source literal: %s' % (t, x, e.error), d, 'literal-rejected') from e
    if x > 0 or (x == 0 and not t.startswith('-')):
        if expr != {'number': x} or not isinstance(expr.get('number'), float):
            raise Violation('literal %r parses to %r, expected number %r' % (t, expr, x), d, 'literal-value')
    val = impl.bs.evaluate_expression(expr)
    if val != x:
        raise Violation('literal %r evaluates to %r, expected %r' % (t, val, x), d, 'literal-value')
    return t


def check_long_join(xs):
    """arrayJoin over a long array: every element must be printed with its own text (the text the other routes give)."""
    from pbt.refsem.values import ref_number_string
    d = {'kind': 'join', 'xs': enc(xs)}
    if 'join' not in _m:
        _m['join'] = impl.bs.parse_script("return arrayNew(arrayJoin(xs, ','), arrayJoin(arrayCopy(xs), ';'))")
    out = impl.run_model(_m['join'], {'xs': list(xs)})
    if out.kind != 'ok' or not isinstance(out.value, list) or not isinstance(out.value[0], str):
        raise Violation('arrayJoin over %d numbers failed: %r' % (len(xs), out), d, 'join-fails')
    parts = out.value[0].split(',')
    if len(parts) != len(xs) or out.value[1].split(';') != parts:
        raise Violation('arrayJoin over %d numbers gives %d fields' % (len(xs), len(parts)), d, 'join-fields')
    for i, (x, t) in enumerate(zip(xs, parts)):
        if t != ref_number_string(x):
            raise Violation('element %d of a %d-element arrayJoin is %r but prints as %r (alone it prints as %r)' % (i, len(xs), x, t, ref_number_string(x)), d, 'join-text')
        back = float(t)
        if back != x or math.copysign(1, back) != math.copysign(1, float(x)):
            raise Violation('element %d of a %d-element arrayJoin is %r, its text %r parses back to %r' % (i, len(xs), x, t, back), d, 'join-roundtrip')


_alias = {}


def _alias_expr(name):
    if name not in _alias:
        _alias[name] = impl.bs.parse_expression('%s(s)' % name)
    return _alias[name]


def check_parse(s, radix=None):
    d = {'kind': 'parse', 's': s, 'radix': radix}
    log = []
    out = impl.run_model(models()['pf'], {'s': s}, log, debug=True)
    if out.kind != 'ok':
        raise Violation('numberParseFloat(%r): %r' % (s, out), d, 'parsefloat-raises')
    v = out.value
    if v is not None and (isinstance(v, bool) or not isinstance(v, (int, float)) or math.isnan(v) or math.isinf(v)):
        raise Violation('numberParseFloat(%r) = %r (not null or a finite number)' % (s, v), d, 'parsefloat-nonfinite')
    if log:
        raise Violation('numberParseFloat(%r) failed instead of returning null: %r' % (s, log), d, 'parsefloat-fails')
    if re.fullmatch(r'[+-]?(\d+(\.\d*)?|\.\d+)([eE][+-]?\d+)?', s):
        want = float(s)
        want = None if math.isinf(want) else want
        if v != want or (v is None) != (want is None):
            raise Violation('numberParseFloat(%r) = %r, expected %r' % (s, v, want), d, 'parsefloat-value')
    elif s in NEAR_MISSES and v is not None:
        raise Violation('numberParseFloat(%r) = %r, expected null' % (s, v), d, 'parsefloat-nearmiss')
    pf_value = v
    # numberParseInt
    log = []
    if radix is None:
        out = impl.run_model(models()['pi'], {'s': s}, log, debug=True)
        radix_eff = 10
    else:
        out = impl.run_model(models()['pir'], {'s': s, 'r': radix}, log, debug=True)
        radix_eff = int(radix)
    if out.kind != 'ok':
        raise Violation('numberParseInt(%r, %r): %r' % (s, radix, out), d, 'parseint-raises')
    v = out.value
    if v is not None and (isinstance(v, bool) or not isinstance(v, (int, float)) or (isinstance(v, float) and (math.isnan(v) or math.isinf(v)))):
        raise Violation('numberParseInt(%r) = %r' % (s, v), d, 'parseint-nonfinite')
    if log:
        raise Violation('numberParseInt(%r, %r) failed instead of returning null: %r' % (s, radix, log), d, 'parseint-fails')
    # the same parsers under their expression names (parseInt / parseFloat in evaluate_expression)
    if radix is None:
        for alias, script_value in (('parseInt', v), ('parseFloat', pf_value)):
            try:
                ev = impl.bs.evaluate_expression(_alias_expr(alias), {'globals': {'s': s}})
            except Exception as e:  # pylint: disable=broad-except
                raise Violation('expression %s(%r) raised %s' % (alias, s[:40], type(e).__name__), d, 'alias-raises') from e
            if type(ev) is not type(script_value) or ev != script_value:
                raise Violation('expression %s(%s) = %r, the script function gives %r' % (alias, repr(s) if len(s) < 60 else '<%d characters>' % len(s), ev, script_value), d,
                                'alias-differs:' + alias)
    digits = '0123456789abcdefghijklmnopqrstuvwxyz'[:radix_eff]
    if radix_eff == 10 and v is not None and re.fullmatch(r'\s*[+-]?(\d+\.\d*|\.\d+|\d+(\.\d*)?[eE][+-]?\d+|\.\d+[eE][+-]?\d+)\s*', s):
        # a decimal text with a fraction point or an exponent is not an integer text, however long it is or however it is padded
        raise Violation('numberParseInt(%s) = %r, expected null (the text has a fraction or an exponent)' % (
            repr(s) if len(s) < 60 else '<%d characters: %r...%r>' % (len(s), s[:12], s[-12:]), v), d, 'parseint-partial')
    if len(s) > 4000:
        pass        # (beyond the host's integer text limit the value of a valid integer text is not asserted)
    elif re.fullmatch(r'[+-]?[%s]+' % digits, s, re.I) and s.isascii():
        want = int(s, radix_eff)
        if v != want:
            raise Violation('numberParseInt(%r, %r) = %r, expected %r' % (s, radix, v, want), d, 'parseint-value')
    elif radix is None and s in INT_NEAR_MISSES and v is not None:
        raise Violation('numberParseInt(%r) = %r, expected null' % (s, v), d, 'parseint-nearmiss')
    elif s in NEVER_INT and v is not None:
        raise Violation('numberParseInt(%r, %r) = %r, expected null (the text is not a number in any radix)' % (s, radix, v), d, 'parseint-nearmiss')
    return v


def boundary_numbers():
    out = []
    for e in range(-320, 309):
        x = float('1e%d' % e)
        out += [x, math.nextafter(x, 0), math.nextafter(x, math.inf), -x, 3 * x if e < 308 else x, 1.5 * x if e < 308 else x]
    for base in (2.0 ** 53, 1e15, 1e16, 1e21, 1e22, 2.0 ** 63, 2.0 ** 64, 1e17):
        x = base
        for _ in range(6):
            out += [x, -x]
            x = math.nextafter(x, math.inf)
        x = base
        for _ in range(6):
            x = math.nextafter(x, 0)
            out += [x, -x]
    out += [0.0, -0.0, 5e-324, 1e-323, 2.2250738585072014e-308, 2.225073858507201e-308, 1.7976931348623157e308, -1.7976931348623157e308,
            0.1, 0.2, 0.30000000000000004, 1 / 3, 2 / 3, 100.0, 1000000.0, 123456789012345.0, 1234567890123456.0, 9999999999999998.0,
            0.0001, 0.00001, 1e-5, 1.5e-5, 123e-7]
    out += [float(n) for n in range(-50, 1100)] + [n / 10 for n in range(-100, 100)] + [n / 100 for n in range(0, 300)]
    out += list(range(-20, 120)) + [2 ** 53 - 1, -(2 ** 53 - 1), 10 ** 15, 10 ** 15 + 1, 999999999999999, 2 ** 31, 2 ** 32]
    return out


def nontrivial_number(x):
    fx = float(x)
    return fx != int(fx) or abs(fx) >= 1e16 or (0 < abs(fx) < 1e-4)


def plan(tier):
    specs = [{'kind': 'boundary'}, {'kind': 'nearmiss'}]
    k = 6 if tier == 'quick' else 16
    specs += [{'kind': 'numbers', 'n': 8000 if tier == 'quick' else 150000, 'k': i} for i in range(k)]
    specs += [{'kind': 'joins', 'n': 300 if tier == 'quick' else 8000, 'k': 0}]
    specs += [{'kind': 'strings', 'n': 5000 if tier == 'quick' else 60000, 'k': i} for i in range(4 if tier == 'quick' else 16)]
    return specs


decimal_text = st.builds(
    lambda sign, ip, fp, ex: sign + ip + fp + ex,
    st.sampled_from(['', '-', '+']),
    st.integers(0, 10 ** 18).map(str) | st.sampled_from(['0', '00', '007', '1', '9' * 20, '1' + '0' * 30]),
    st.one_of(st.just(''), st.just('.'), st.integers(0, 10 ** 9).map(lambda n: '.' + str(n)), st.sampled_from(['.0', '.000', '.50', '.' + '9' * 25])),
    st.one_of(st.just(''), st.builds(lambda e, s, n: e + s + str(n), st.sampled_from(['e', 'E']), st.sampled_from(['', '+', '-']),
                                     st.integers(0, 330))),
)
mutated_text = st.builds(lambda t, i, c: t[:i % (len(t) + 1)] + c + t[i % (len(t) + 1):], decimal_text, st.integers(0, 40),
                         st.sampled_from(['x', ' ', '.', 'e', '-', ',', '_', '0x', 'inf', '٣']))
# the same texts padded to thousands of characters (leading zeros, surrounding blanks, trailing zeros of the fraction)
long_text = st.builds(lambda t, how, n: {'zeros': (t[0] if t[:1] in '+-' else '') + '0' * n + t.lstrip('+-'), 'lead': ' ' * n + t, 'trail': t + ' ' * n,
                                         'fraction': t + ('0' * n if '.' in t and 'e' not in t.lower() else '')}[how],
                      st.one_of(decimal_text, st.sampled_from(['12.75', '1e3', '.5', '12.5', '7', '-3', '1.', '0.0', '1e-3'])),
                      st.sampled_from(['zeros', 'lead', 'trail', 'fraction']), st.sampled_from([4290, 4301, 4400, 5000, 9000]))
any_text = st.one_of(long_text, decimal_text, decimal_text, mutated_text, st.sampled_from(NEAR_MISSES + INT_NEAR_MISSES), st.text(max_size=8),
                     st.integers(-10 ** 30, 10 ** 30).map(str), st.text(alphabet='0123456789abcdefxyzABCDEF+-', max_size=10))


def run_shard(ctx, spec):
    if spec['kind'] == 'boundary':
        for x in boundary_numbers():
            try:
                t = check_number(x)
            except Violation as v:
                ctx.violation(v)
                t = None
            ctx.case(digest(repr(x)), nontrivial_number(x), ['boundary', 'exp-form' if t and 'e' in t else 'plain-form'], {'x': x, 'text': t})
            if float(x).is_integer():
                for via in VIAS:
                    try:
                        t = check_number(x, via)
                    except Violation as v:
                        ctx.violation(v)
                        continue
                    ctx.case(digest(repr(x) + via), nontrivial_number(x), ['boundary', 'via-library:' + via], {'x': x, 'text': t, 'via': via})
        return
    if spec['kind'] == 'nearmiss':
        for s in sorted(set(NEAR_MISSES + INT_NEAR_MISSES)):
            for radix in (None, 2.0, 8.0, 10.0, 16.0, 36):
                try:
                    check_parse(s, radix)
                except Violation as v:
                    ctx.violation(v)
                ctx.case(digest('nm' + s + repr(radix)), True, ['near-miss'], {'s': s, 'radix': radix})
        return
    if spec['kind'] == 'numbers':
        def prop(x, via):
            via = via if float(x).is_integer() else None
            t = check_number(x, via)
            ctx.case(digest(repr(x) + str(via)), nontrivial_number(x),
                     ['int-spelling' if isinstance(x, int) else 'float', 'exp-form' if 'e' in t else 'plain-form',
                      'subnormal' if 0 < abs(x) < 2.3e-308 else 'normal'] + (['via-library:' + via] if via else []), {'x': x, 'text': t, 'via': via})
        integral_doubles = st.one_of(st.integers(-(2 ** 53), 2 ** 53).map(float), st.integers(2 ** 53, 10 ** 16).map(float), st.integers(10 ** 16, 10 ** 22).map(float),
                                     st.integers(0, 1023).flatmap(lambda e: st.integers(2 ** 52, 2 ** 53 - 1).map(lambda m: float(m) * 2.0 ** (e - 52))))
        num = st.one_of(integral_doubles, gv.finite_doubles, gv.finite_doubles, st.integers(-(2 ** 53) + 1, 2 ** 53 - 1),
                        st.integers(0, 2 ** 64 - 1).map(lambda b: struct.unpack('<d', struct.pack('<Q', b))[0]).filter(math.isfinite))
        run_hypothesis(ctx, prop, [num, st.sampled_from([None, None] + sorted(VIAS))], spec['n'], salt=spec['k'])
        return

    if spec['kind'] == 'joins':
        def jprop(xs):
            check_long_join(xs)
            ctx.case(digest(repr(xs)), len(xs) >= 32 and (0.0 in xs), ['long-join', 'len>=32' if len(xs) >= 32 else 'len<32'], {'n': len(xs), 'head': xs[:6]})
        elem = st.one_of(st.sampled_from([0.0, -0.0, 0, 1.0, -1.0, 1, 0.5, 1e21, 1e-7, 100.0, 2.5, -2.5]), gv.finite_doubles)
        run_hypothesis(ctx, jprop, [st.sampled_from([1, 3, 16, 31, 32, 33, 48, 64, 100]).flatmap(lambda n: st.lists(elem, min_size=n, max_size=n))], spec['n'], salt=40)
        return

    def sprop(s, radix):
        v = check_parse(s, radix)
        valid = re.fullmatch(r'[+-]?(\d+(\.\d*)?|\.\d+)([eE][+-]?\d+)?', s) is not None
        ctx.case(digest(s + repr(radix)), not valid, ['valid-decimal' if valid else 'not-a-decimal', 'int-null' if v is None else 'int-value'],
                 {'s': s, 'radix': radix})
    run_hypothesis(ctx, sprop, [any_text, st.one_of(st.none(), st.none(), st.sampled_from([2.0, 8.0, 10.0, 16.0, 36.0, 10, 2]))],
                   spec['n'], salt=spec['k'])


def replay(detail):
    if detail.get('kind') == 'join':
        check_long_join(dec(detail['xs']))
    elif detail.get('kind') == 'number':
        check_number(dec(detail['x']), detail.get('via'))
    else:
        check_parse(detail['s'], detail.get('radix'))
