"""Reference (big-step) semantics of BareScript expressions and structured programs.

Written from the language documentation and the statements of C01/C03/C04; never imports bare_script.

Expressions are the source trees of pbt.gen.exprs:
  ('num', text, value) ('str', text, value) ('var', name) ('brvar', text, name)
  ('call', name, [args]) ('group', e) ('unary', op, e) ('bin', op, l, r)
Statements:
  ('assign', name, e) ('expr', e) ('if', [(cond, body), ...], else_body | None) ('while', cond, body)
  ('for', value_name, index_name | None, array_expr, body) ('break',) ('continue',) ('return', e | None)
  ('func', name, params, last_array, body)
"""
import copy
import datetime
import math

from .library import LIBRARY_NAMES, MODELS, NEEDS_CALL, UNSPEC, Fail, UnspecifiedResult
from .values import RefFunction, is_number, norm_dt, ref_compare, ref_string, truthy


class RefRuntimeError(Exception):
    """The program must end with a BareScript runtime error of this kind ('undefined-function')."""

    def __init__(self, kind, name=None):
        super().__init__(kind)
        self.kind = kind
        self.name = name


SIZE_LIMIT = 1 << 18        # strings / arrays a generated program may build (doubling in nested loops is cut off here)


class Indeterminate(Exception):
    """The run reached something the properties deliberately do not fix (x/0, overflow, % of a negative, UNSPEC model, fuel)."""


class _Break(Exception):
    pass


class _Continue(Exception):
    pass


class _Return(Exception):
    def __init__(self, value):
        super().__init__()
        self.value = value


# Spreadsheet-style built-ins of expression mode -> library function (own transcription of the documented table)
EXPRESSION_ALIASES = {
    'abs': 'mathAbs', 'acos': 'mathAcos', 'asin': 'mathAsin', 'atan': 'mathAtan', 'atan2': 'mathAtan2', 'ceil': 'mathCeil',
    'charCodeAt': 'stringCharCodeAt', 'cos': 'mathCos', 'date': 'datetimeNew', 'day': 'datetimeDay', 'endsWith': 'stringEndsWith',
    'indexOf': 'stringIndexOf', 'fixed': 'numberToFixed', 'floor': 'mathFloor', 'fromCharCode': 'stringFromCharCode', 'hour': 'datetimeHour',
    'lastIndexOf': 'stringLastIndexOf', 'len': 'stringLength', 'lower': 'stringLower', 'ln': 'mathLn', 'log': 'mathLog', 'max': 'mathMax',
    'min': 'mathMin', 'millisecond': 'datetimeMillisecond', 'minute': 'datetimeMinute', 'month': 'datetimeMonth', 'now': 'datetimeNow',
    'parseInt': 'numberParseInt', 'parseFloat': 'numberParseFloat', 'pi': 'mathPi', 'rand': 'mathRandom', 'replace': 'stringReplace',
    'rept': 'stringRepeat', 'round': 'mathRound', 'second': 'datetimeSecond', 'sign': 'mathSign', 'sin': 'mathSin', 'slice': 'stringSlice',
    'sqrt': 'mathSqrt', 'startsWith': 'stringStartsWith', 'text': 'stringNew', 'tan': 'mathTan', 'today': 'datetimeToday', 'trim': 'stringTrim',
    'upper': 'stringUpper', 'year': 'datetimeYear',
}


def round_half_away(x):
    return math.floor(x + 0.5) if x >= 0 else math.ceil(x - 0.5)


def binary_op(op, l, r):
    """The typed operator table (everything except && and ||). Raises Indeterminate where the math is undefined."""
    if op == '+':
        if is_number(l) and is_number(r):
            return _arith(lambda: l + r)
        if isinstance(l, str) or isinstance(r, str):
            out = (l if isinstance(l, str) else _str(l)) + (r if isinstance(r, str) else _str(r))
            if len(out) > SIZE_LIMIT:
                raise Indeterminate('value grows beyond the size the checks explore')
            return out
        if isinstance(l, datetime.date) and is_number(r):
            return _dt_add(l, r)
        if is_number(l) and isinstance(r, datetime.date):
            return _dt_add(r, l)
        return None
    if op == '-':
        if is_number(l) and is_number(r):
            return _arith(lambda: l - r)
        if isinstance(l, datetime.date) and isinstance(r, datetime.date):
            return float(round_half_away((norm_dt(l) - norm_dt(r)).total_seconds() * 1000))
        return None
    if op in ('*', '/', '%', '**'):
        if not (is_number(l) and is_number(r)):
            return None
        if op == '*':
            return _arith(lambda: l * r)
        if op == '/':
            if r == 0:
                raise Indeterminate('division by zero')
            return _arith(lambda: l / r)
        if op == '%':
            if r <= 0 or l < 0 or not (math.isfinite(l) and math.isfinite(r)):
                raise Indeterminate('modulo with a negative operand or non-positive divisor')
            return _arith(lambda: l % r)
        # **
        if (l == 0 and r < 0) or (l < 0 and r != int(r)) or not (math.isfinite(l) and math.isfinite(r)):
            raise Indeterminate('undefined exponentiation')
        if isinstance(l, int) and isinstance(r, int) and abs(r) > 4096:
            raise Indeterminate('huge integer exponent')
        return _arith(lambda: l ** r)
    c = ref_compare(l, r)
    return {'<': c < 0, '<=': c <= 0, '>': c > 0, '>=': c >= 0, '==': c == 0, '!=': c != 0}[op]


def _str(v):
    if isinstance(v, float) and not math.isfinite(v):
        raise Indeterminate('non-finite number stringified')
    if isinstance(v, (list, dict)) and _has_nonfinite(v):
        raise Indeterminate('non-finite number stringified')
    try:
        return ref_string(v)
    except (ValueError, OverflowError) as e:
        raise Indeterminate('datetime out of range') from e


def _has_nonfinite(v):
    if isinstance(v, float):
        return not math.isfinite(v)
    if isinstance(v, list):
        return any(_has_nonfinite(x) for x in v)
    if isinstance(v, dict):
        return any(_has_nonfinite(x) for x in v.values())
    return False


def _arith(f):
    try:
        v = f()
    except (OverflowError, ZeroDivisionError) as e:
        raise Indeterminate('arithmetic overflow') from e
    if isinstance(v, complex):
        raise Indeterminate('complex result')
    if isinstance(v, float) and not math.isfinite(v):
        raise Indeterminate('non-finite result')
    return v


def _dt_add(dt, ms):
    if not math.isfinite(ms):
        raise Indeterminate('non-finite millisecond offset')
    try:
        return norm_dt(dt) + datetime.timedelta(milliseconds=ms)
    except (OverflowError, ValueError) as e:
        raise Indeterminate('datetime out of range') from e


class Ref:
    """One reference run. host: name -> callable(args, ref) for harness-supplied host functions (shared with the
    implementation run by construction, e.g. probe, systemLog capture)."""

    def __init__(self, globals_, log, host=None, builtins=False, while_continue_defect=False, fuel=200000, library=True):
        self.g = globals_
        self.log = log
        self.host = host or {}
        self.builtins = builtins
        self.wcd = while_continue_defect
        self.fuel = fuel
        self.library = library
        self.statements = 0
        self.events = {'break': 0, 'continue': 0, 'return-in-loop': 0, 'elif-or-else': 0, 'loop-iterations-max': 0,
                       'short-circuit': 0, 'call-arity-mismatch': 0}
        self._loop_depth = 0

    # -- expressions -------------------------------------------------------------------------------------------
    def lookup(self, name, loc):
        if name == 'null':
            return None
        if name == 'true':
            return True
        if name == 'false':
            return False
        if loc is not None and name in loc:
            return loc[name]
        if name in self.g:
            return self.g[name]
        if self.library and (name in LIBRARY_NAMES):
            return LibraryRef(name)       # the library is part of the globals unless the caller/script bound the name
        return None

    def ev(self, e, loc):
        k = e[0]
        if k == 'num':
            return e[2]
        if k == 'str':
            return e[2]
        if k == 'var':
            return self.lookup(e[1], loc)
        if k == 'brvar':
            return self.lookup(e[2], loc)
        if k == 'group':
            return self.ev(e[1], loc)
        if k == 'unary':
            v = self.ev(e[2], loc)
            if e[1] == '!':
                return not truthy(v)
            return -v if is_number(v) else None
        if k == 'bin':
            op = e[1]
            l = self.ev(e[2], loc)
            if op == '&&':
                if not truthy(l):
                    self.events['short-circuit'] += 1
                    return l
                return self.ev(e[3], loc)
            if op == '||':
                if truthy(l):
                    self.events['short-circuit'] += 1
                    return l
                return self.ev(e[3], loc)
            r = self.ev(e[3], loc)
            return binary_op(op, l, r)
        if k == 'call':
            return self.call_expr(e[1], e[2], loc)
        raise AssertionError('bad expression node %r' % (e,))

    def call_expr(self, name, arg_exprs, loc):
        if name == 'if':
            cond = self.ev(arg_exprs[0], loc) if len(arg_exprs) >= 1 else False
            branch = (arg_exprs[1] if len(arg_exprs) >= 2 else None) if truthy(cond) else (arg_exprs[2] if len(arg_exprs) >= 3 else None)
            return self.ev(branch, loc) if branch is not None else None
        args = [self.ev(a, loc) for a in arg_exprs]
        if loc is not None and name in loc:
            f = loc[name]
        elif name in self.g:
            f = self.g[name]
        elif self.builtins and name in EXPRESSION_ALIASES:
            f = LibraryRef(EXPRESSION_ALIASES[name])
        elif self.library and (name in LIBRARY_NAMES or name in self.host):
            f = LibraryRef(name)
        else:
            f = None
        if f is None:
            raise RefRuntimeError('undefined-function', name)
        return self.call_value(f, args)

    def call_value(self, f, args):
        if isinstance(f, RefFunction):
            return self.call_function(f, args)
        if isinstance(f, LibraryRef):
            return self.call_library(f.name, args)
        if isinstance(f, RefPartial):
            return self.call_value(f.func, list(f.args) + list(args))
        if callable(f):
            # a host function supplied by the harness: the same Python callable the implementation run gets
            name = getattr(f, '__name__', None)
            if name in self.host:
                return self.host[name](args, self)
            try:
                return f(args, None)
            except Exception:  # pylint: disable=broad-except
                return None      # a failing host function makes the call evaluate to null
        return None              # calling a non-function value fails -> null

    def call_back(self, f, args):
        """A function value called by a library function (match / compare function). What the outer call makes of a library function that FAILS
        in that position (null result, or the outer call fails too) is not documented: indeterminate."""
        target = f.func if isinstance(f, RefPartial) else f
        if isinstance(target, LibraryRef) and target.name in MODELS and target.name not in self.host:
            full = (list(f.args) + list(args)) if isinstance(f, RefPartial) else list(args)
            try:
                MODELS[target.name](copy.deepcopy(full), self.call_back) if target.name in NEEDS_CALL else MODELS[target.name](copy.deepcopy(full))
            except Fail as e:
                raise UnspecifiedResult('library function %s fails as a callback' % target.name) from e
            except UnspecifiedResult:
                raise
        return self.call_value(f, args)

    def call_library(self, name, args):
        if name in self.host:
            return self.host[name](args, self)
        if name == 'systemPartial':
            if not args or not (callable(args[0]) or isinstance(args[0], (RefFunction, LibraryRef, RefPartial))) or len(args) < 2:
                return None
            return RefPartial(args[0], args[1:])
        if name == 'systemLog':
            if len(args) > 1:
                return None
            self.log.append(('log', _str(args[0] if args else None)))
            return None
        if name == 'systemGlobalGet':
            if not (1 <= len(args) <= 2) or not isinstance(args[0], str):
                return None
            if args[0] in self.g:
                return self.g[args[0]]
            if self.library and args[0] in LIBRARY_NAMES:
                return LibraryRef(args[0])
            return args[1] if len(args) == 2 else None
        if name == 'systemGlobalSet':
            if not (1 <= len(args) <= 2) or not isinstance(args[0], str):
                return None
            self.g[args[0]] = args[1] if len(args) == 2 else None
            return self.g[args[0]]
        model = MODELS.get(name)
        if model is None:
            raise Indeterminate('no reference model for ' + name)
        try:
            if name in NEEDS_CALL:
                result = model(args, self.call_back)
            else:
                result = model(args)
        except Fail as f:
            return f.value
        except UnspecifiedResult as e:
            raise Indeterminate(str(e)) from e
        if result is UNSPEC:
            raise Indeterminate('unspecified result of ' + name)
        if isinstance(result, (str, list)) and len(result) > SIZE_LIMIT:
            raise Indeterminate('value grows beyond the size the checks explore')
        return result

    def call_function(self, f, args):
        loc = {}
        n = len(f.params)
        if len(args) != n and not (f.last_array and len(args) >= n - 1):
            self.events['call-arity-mismatch'] += 1
        for i, p in enumerate(f.params):
            if f.last_array and i == n - 1:
                loc[p] = list(args[i:])
            else:
                loc[p] = args[i] if i < len(args) else None
        saved = self._loop_depth
        self._loop_depth = 0
        try:
            self.run(f.body, loc)
        except _Return as r:
            return r.value
        finally:
            self._loop_depth = saved
        return None

    # -- statements --------------------------------------------------------------------------------------------
    def assign(self, name, value, loc):
        if loc is not None:
            loc[name] = value
        else:
            self.g[name] = value

    def tick(self):
        self.fuel -= 1
        if self.fuel < 0:
            raise Indeterminate('reference fuel exhausted')

    def run(self, stmts, loc):
        for s in stmts:
            self.tick()
            k = s[0]
            if k == 'assign':
                self.assign(s[1], self.ev(s[2], loc), loc)
            elif k == 'expr':
                self.ev(s[1], loc)
            elif k == 'if':
                taken = False
                for i, (cond, body) in enumerate(s[1]):
                    if truthy(self.ev(cond, loc)):
                        if i > 0:
                            self.events['elif-or-else'] += 1
                        self.run(body, loc)
                        taken = True
                        break
                if not taken and s[2] is not None:
                    self.events['elif-or-else'] += 1
                    self.run(s[2], loc)
            elif k == 'while':
                self.run_while(s, loc)
            elif k == 'for':
                self.run_for(s, loc)
            elif k == 'break':
                self.events['break'] += 1
                raise _Break()
            elif k == 'continue':
                self.events['continue'] += 1
                raise _Continue()
            elif k == 'return':
                if self._loop_depth > 0:
                    self.events['return-in-loop'] += 1
                raise _Return(self.ev(s[1], loc) if s[1] is not None else None)
            elif k == 'func':
                self.g[s[1]] = RefFunction(s[1], s[2], s[3], s[4])
            else:
                raise AssertionError('bad statement %r' % (s,))

    def run_while(self, s, loc):
        cond, body = s[1], s[2]
        iterations = 0
        self._loop_depth += 1
        try:
            if not truthy(self.ev(cond, loc)):
                return
            while True:
                self.tick()
                iterations += 1
                try:
                    self.run(body, loc)
                except _Break:
                    break
                except _Continue:
                    if self.wcd:
                        continue      # known finding F7: `continue` re-enters the body without re-testing the condition
                if not truthy(self.ev(cond, loc)):
                    break
        finally:
            self._loop_depth -= 1
            self.events['loop-iterations-max'] = max(self.events['loop-iterations-max'], iterations)

    def run_for(self, s, loc):
        _, value_name, index_name, arr_expr, body = s
        arr = self.ev(arr_expr, loc)
        if not isinstance(arr, list):
            return
        n = len(arr)
        iterations = 0
        self._loop_depth += 1
        try:
            for i in range(n):
                self.tick()
                iterations += 1
                if index_name:
                    self.assign(index_name, i, loc)
                self.assign(value_name, arr[i] if i < len(arr) else None, loc)
                try:
                    self.run(body, loc)
                except _Break:
                    break
                except _Continue:
                    pass
        finally:
            self._loop_depth -= 1
            self.events['loop-iterations-max'] = max(self.events['loop-iterations-max'], iterations)

    def run_program(self, stmts):
        """Returns the script's return value (null when it runs off the end)."""
        try:
            self.run(stmts, None)
        except _Return as r:
            return r.value
        return None


class LibraryRef:
    """A library function as a value inside the reference interpreter."""
    __slots__ = ('name',)

    def __init__(self, name):
        self.name = name

    def __call__(self, *a):
        raise RuntimeError('reference library function called directly')


class RefPartial:
    __slots__ = ('func', 'args')

    def __init__(self, func, args):
        self.func = func
        self.args = args

    def __call__(self, *a):
        raise RuntimeError('reference partial called directly')
