"""Reference value semantics for BareScript, written from the language documentation and the property
statements. Never imports bare_script.

The nine types: null, boolean, number, string, datetime, array, object, function, regex.
"""
import datetime
import json
import math
import re

REGEX_TYPE = type(re.compile(''))


class RefFunction:
    """A script-defined function inside the reference interpreter."""
    __slots__ = ('name', 'params', 'last_array', 'body')

    def __init__(self, name, params, last_array, body):
        self.name = name
        self.params = params
        self.last_array = last_array
        self.body = body

    def __call__(self, *a, **k):  # makes callable() true, never actually used
        raise RuntimeError('reference function called directly')


def is_number(v):
    return isinstance(v, (int, float)) and not isinstance(v, bool)


def ref_type(v):
    if v is None:
        return 'null'
    if isinstance(v, str):
        return 'string'
    if isinstance(v, bool):
        return 'boolean'
    if isinstance(v, (int, float)):
        return 'number'
    if isinstance(v, datetime.date):
        return 'datetime'
    if isinstance(v, dict):
        return 'object'
    if isinstance(v, list):
        return 'array'
    if isinstance(v, REGEX_TYPE):
        return 'regex'
    if callable(v):
        return 'function'
    return None


def truthy(v):
    """null, false, 0, '' and [] are false; everything else (including {} and datetimes) is true."""
    if v is None:
        return False
    if isinstance(v, bool):
        return v
    if isinstance(v, str):
        return v != ''
    if isinstance(v, (int, float)):
        return v != 0
    if isinstance(v, list):
        return len(v) != 0
    return True


def norm_dt(v):
    """A datetime value as a naive local wall-clock datetime."""
    if isinstance(v, datetime.datetime):
        if v.tzinfo is not None:
            return v.astimezone().replace(tzinfo=None)
        return v
    return datetime.datetime(v.year, v.month, v.day)


def _sign(a, b):
    return -1 if a < b else (0 if a == b else 1)


_COMPARE_WORK = [0]


def ref_compare(a, b, _depth=0):
    """Total preorder: null first; same type by natural order; arrays lexicographic then by length; objects
    by sorted (key, value) pairs then by size; different types by type name."""
    if _depth == 0:
        _COMPARE_WORK[0] = 0
    _COMPARE_WORK[0] += 1
    if _COMPARE_WORK[0] > 400000:
        # a value that shares one sub-array in many places is a DAG whose tree expansion is astronomically large: comparing it element by
        # element takes for ever - for the implementation too. Resource exhaustion; reported like a host stack overflow (the checks discard it)
        raise RecursionError('comparison of a value with an astronomically large tree expansion')
    if a is None:
        return 0 if b is None else -1
    if b is None:
        return 1
    ta, tb = ref_type(a), ref_type(b)
    if ta != tb:
        return _sign(ta or 'unknown', tb or 'unknown')
    if ta in ('string', 'boolean', 'number'):
        return _sign(a, b)
    if ta == 'datetime':
        return _sign(norm_dt(a), norm_dt(b))
    if ta == 'array':
        for x, y in zip(a, b):
            c = ref_compare(x, y, _depth + 1)
            if c:
                return c
        return _sign(len(a), len(b))
    if ta == 'object':
        ia = sorted(a.items(), key=lambda kv: kv[0])
        ib = sorted(b.items(), key=lambda kv: kv[0])
        for (k1, v1), (k2, v2) in zip(ia, ib):
            c = _sign(k1, k2) or ref_compare(v1, v2, _depth + 1)
            if c:
                return c
        return _sign(len(ia), len(ib))
    return 0   # functions, regexes: all equal among themselves


def ref_number_string(v):
    if isinstance(v, int):
        return str(v)
    if math.isnan(v):
        return 'nan'
    if math.isinf(v):
        return 'inf' if v > 0 else '-inf'
    if v == int(v) and abs(v) < 1e16:
        if v == 0 and math.copysign(1, v) < 0:
            return '-0'      # the implementation's spelling; nothing in the properties fixes the sign of zero
        return str(int(v))
    return repr(v)


def ref_datetime_string(v):
    """ISO-8601, local offset, always milliseconds when there is a sub-second part (as the docs show)."""
    dt = norm_dt(v)
    off = dt.astimezone().utcoffset()
    total = int(off.total_seconds())
    sign = '+' if total >= 0 else '-'
    total = abs(total)
    text = '%04d-%02d-%02dT%02d:%02d:%02d' % (dt.year, dt.month, dt.day, dt.hour, dt.minute, dt.second)
    if dt.microsecond:
        text += '.%03d' % (dt.microsecond // 1000)
    return text + '%s%02d:%02d' % (sign, total // 3600, (total % 3600) // 60)


def ref_string(v):
    if v is None:
        return 'null'
    if isinstance(v, str):
        return v
    if isinstance(v, bool):
        return 'true' if v else 'false'
    if isinstance(v, (int, float)):
        return ref_number_string(v)
    if isinstance(v, datetime.date):
        return ref_datetime_string(v)
    if isinstance(v, (list, dict)):
        return ref_json(v)
    if isinstance(v, REGEX_TYPE):
        return '<regex>'
    if callable(v):
        return '<function>'
    return '<unknown>'


def ref_json(v, indent=None, _level=0):
    """Own recursive serialiser: sorted keys, compact (or indented) form, integral numbers without fraction."""
    if v is None:
        return 'null'
    if isinstance(v, bool):
        return 'true' if v else 'false'
    if isinstance(v, (int, float)):
        if isinstance(v, float) and (math.isnan(v) or math.isinf(v)):
            raise ValueError('non-finite number in JSON')
        return ref_number_string(v)
    if isinstance(v, str):
        return json.dumps(v)
    if isinstance(v, datetime.date):
        return json.dumps(ref_datetime_string(v))
    if isinstance(v, list):
        if not v:
            return '[]'
        if indent:
            pad = '\n' + ' ' * (indent * (_level + 1))
            return '[' + pad + (',' + pad).join(ref_json(x, indent, _level + 1) for x in v) + '\n' + ' ' * (indent * _level) + ']'
        return '[' + ','.join(ref_json(x) for x in v) + ']'
    if isinstance(v, dict):
        if not v:
            return '{}'
        keys = sorted(v)
        if indent:
            pad = '\n' + ' ' * (indent * (_level + 1))
            return '{' + pad + (',' + pad).join(json.dumps(k) + ': ' + ref_json(v[k], indent, _level + 1) for k in keys) + \
                '\n' + ' ' * (indent * _level) + '}'
        return '{' + ','.join(json.dumps(k) + ':' + ref_json(v[k]) for k in keys) + '}'
    if isinstance(v, REGEX_TYPE):
        return 'null'
    if callable(v):
        return '"<function>"'
    return 'null'


# ---------------------------------------------------------------------------------------------
# Equality used when comparing an implementation value with a reference value
# ---------------------------------------------------------------------------------------------

def num_equal(a, b, rel=1e-12):
    """Numeric value equality: int/float spellings equal, nan == nan, -0 == 0, tiny relative error allowed
    for magnitudes above 2**53 (exact int on one side, rounded float on the other)."""
    try:
        fa, fb = float(a), float(b)
    except OverflowError:
        try:
            return int(a) == int(b)
        except (OverflowError, ValueError):
            return False
    if math.isnan(fa) or math.isnan(fb):
        return math.isnan(fa) and math.isnan(fb)
    if fa == fb:
        return True
    if math.isinf(fa) or math.isinf(fb):
        return False
    return abs(fa - fb) <= rel * max(abs(fa), abs(fb))


def values_equal(a, b, same_function=None):
    """Structural equality of two BareScript values (numbers by value, booleans distinct from numbers)."""
    ta, tb = ref_type(a), ref_type(b)
    if ta != tb:
        return False
    if ta == 'number':
        return num_equal(a, b)
    if ta in ('null', 'boolean', 'string'):
        return a == b
    if ta == 'datetime':
        return norm_dt(a) == norm_dt(b)
    if ta == 'array':
        return len(a) == len(b) and all(values_equal(x, y, same_function) for x, y in zip(a, b))
    if ta == 'object':
        return a.keys() == b.keys() and all(values_equal(a[k], b[k], same_function) for k in a)
    if ta == 'function':
        return same_function(a, b) if same_function else True
    if ta == 'regex':
        return a.pattern == b.pattern and a.flags == b.flags
    return a is b
