"""Reference models of the array*, object*, string* (and a few system/math) library functions, written from the
$doc/$arg/$return comments of the library. Never imports bare_script.

A model takes the list of argument values (already evaluated), may mutate the passed containers in place, and returns
the result. It raises Fail(value) when the call must fail with its documented failure value (and must not have changed
anything), and returns UNSPEC where the documentation does not determine the answer.
"""
import functools

from .values import is_number, ref_compare, ref_string, ref_type, truthy


class Fail(Exception):
    def __init__(self, value=None):
        super().__init__('call fails')
        self.value = value


class UnspecifiedResult(Exception):
    """Raised from inside a model when the documentation does not determine the outcome."""


class _Unspec:
    def __repr__(self):
        return 'UNSPEC'


UNSPEC = _Unspec()

FAILURE_VALUES = {'arrayIndexOf': -1, 'arrayLastIndexOf': -1, 'stringIndexOf': -1, 'stringLastIndexOf': -1,
                  'arrayLength': 0, 'stringLength': 0, 'objectHas': False}


def is_index(v, lo=0):
    return is_number(v) and v == int(v) and v >= lo


def _need(cond, name):
    if not cond:
        raise Fail(FAILURE_VALUES.get(name))


def m_arrayCopy(a):
    _need(len(a) == 1 and isinstance(a[0], list), 'arrayCopy')
    return list(a[0])


def m_arrayDelete(a):
    _need(len(a) == 2 and isinstance(a[0], list) and is_index(a[1]) and a[1] < len(a[0]), 'arrayDelete')
    del a[0][int(a[1])]
    return UNSPEC        # documentation and code disagree about the return value


def m_arrayExtend(a):
    _need(len(a) == 2 and isinstance(a[0], list) and isinstance(a[1], list), 'arrayExtend')
    _no_cycle(a[0], list(a[1]), 'arrayExtend')
    a[0].extend(list(a[1]))
    return a[0]


def m_arrayGet(a):
    _need(len(a) == 2 and isinstance(a[0], list) and is_index(a[1]) and a[1] < len(a[0]), 'arrayGet')
    return a[0][int(a[1])]


def m_arrayIndexOf(a, call=None):
    _need(len(a) in (1, 2, 3) and isinstance(a[0], list), 'arrayIndexOf')
    value = a[1] if len(a) >= 2 else None
    ix = a[2] if len(a) == 3 else 0
    _need(is_index(ix) and ix < len(a[0]), 'arrayIndexOf')
    if ref_type(value) == 'function':
        if call is None:
            return UNSPEC
        for i in range(int(ix), len(a[0])):
            if truthy(call(value, [a[0][i]])):
                return i
        return -1
    for i in range(int(ix), len(a[0])):
        if ref_compare(a[0][i], value) == 0:
            return i
    return -1


def m_arrayLastIndexOf(a, call=None):
    _need(len(a) in (1, 2, 3) and isinstance(a[0], list), 'arrayLastIndexOf')
    value = a[1] if len(a) >= 2 else None
    if len(a) == 3 and a[2] is not None:
        ix = a[2]
        _need(is_index(ix), 'arrayLastIndexOf')
    else:
        ix = len(a[0]) - 1
    _need(ix < len(a[0]), 'arrayLastIndexOf')
    if ref_type(value) == 'function':
        if call is None:
            return UNSPEC
        for i in range(int(ix), -1, -1):
            if truthy(call(value, [a[0][i]])):
                return i
        return -1
    for i in range(int(ix), -1, -1):
        if ref_compare(a[0][i], value) == 0:
            return i
    return -1


def m_arrayJoin(a):
    _need(len(a) == 2 and isinstance(a[0], list) and isinstance(a[1], str), 'arrayJoin')
    return a[1].join(ref_string(x) for x in a[0])


def m_arrayLength(a):
    _need(len(a) == 1 and isinstance(a[0], list), 'arrayLength')
    return len(a[0])


def m_arrayNew(a):
    return list(a)


def m_arrayNewSize(a):
    _need(len(a) <= 2, 'arrayNewSize')
    size = a[0] if len(a) >= 1 else 0
    _need(is_index(size), 'arrayNewSize')
    value = a[1] if len(a) == 2 else 0
    return [value] * int(size)


def m_arrayPop(a):
    _need(len(a) == 1 and isinstance(a[0], list) and len(a[0]) > 0, 'arrayPop')
    return a[0].pop()


def _contains(value, target, depth=0):
    """Is the container `target` reachable from `value` (identity)?"""
    if value is target:
        return True
    if depth > 60 or not isinstance(value, (list, dict)):
        return False
    return any(_contains(x, target, depth + 1) for x in (value if isinstance(value, list) else value.values()))


def _no_cycle(container, values, fn):
    # a container stored inside itself cannot be compared, printed or serialised: what the library makes of it afterwards is not specified
    if any(_contains(v, container) for v in values):
        raise UnspecifiedResult('%s would build a cyclic structure' % fn)


def m_arrayPush(a):
    _need(len(a) >= 1 and isinstance(a[0], list), 'arrayPush')
    _no_cycle(a[0], a[1:], 'arrayPush')
    a[0].extend(a[1:])
    return a[0]


def m_arraySet(a):
    _need(len(a) in (2, 3) and isinstance(a[0], list) and is_index(a[1]) and a[1] < len(a[0]), 'arraySet')
    value = a[2] if len(a) == 3 else None
    _no_cycle(a[0], [value], 'arraySet')
    a[0][int(a[1])] = value
    return value


def m_arrayShift(a):
    _need(len(a) == 1 and isinstance(a[0], list) and len(a[0]) > 0, 'arrayShift')
    return a[0].pop(0)


def m_arraySlice(a):
    _need(len(a) in (1, 2, 3) and isinstance(a[0], list), 'arraySlice')
    start = a[1] if len(a) >= 2 else 0
    end = a[2] if len(a) == 3 and a[2] is not None else len(a[0])
    _need(is_index(start) and is_index(end) and start <= len(a[0]) and end <= len(a[0]), 'arraySlice')
    return a[0][int(start):int(end)]


def m_arraySort(a, call=None):
    _need(len(a) in (1, 2) and isinstance(a[0], list), 'arraySort')
    if len(a) == 2 and a[1] is not None:
        _need(ref_type(a[1]) == 'function', 'arraySort')
        if call is None:
            return UNSPEC
        fn = a[1]

        def cmp(x, y):
            r = call(fn, [x, y])
            if not is_number(r) or r != r:
                raise UnspecifiedResult('comparison function returned a non-number')
            return r
        a[0].sort(key=functools.cmp_to_key(cmp))
        return a[0]
    a[0].sort(key=functools.cmp_to_key(ref_compare))
    return a[0]


def m_objectAssign(a):
    _need(len(a) == 2 and isinstance(a[0], dict) and isinstance(a[1], dict), 'objectAssign')
    _no_cycle(a[0], list(a[1].values()), 'objectAssign')
    a[0].update(a[1])
    return a[0]


def m_objectCopy(a):
    _need(len(a) == 1 and isinstance(a[0], dict), 'objectCopy')
    return dict(a[0])


def m_objectDelete(a):
    _need(len(a) == 2 and isinstance(a[0], dict) and isinstance(a[1], str), 'objectDelete')
    a[0].pop(a[1], None)
    return None


class FailDefault(Fail):
    """objectGet: a failing call returns the supplied default (or null)."""


def m_objectGet(a):
    if not (len(a) in (2, 3) and isinstance(a[0], dict) and isinstance(a[1], str)):
        raise FailDefault(a[2] if len(a) >= 3 else None)
    return a[0].get(a[1], a[2] if len(a) == 3 else None)


def m_objectHas(a):
    _need(len(a) == 2 and isinstance(a[0], dict) and isinstance(a[1], str), 'objectHas')
    return a[1] in a[0]


def m_objectKeys(a):
    _need(len(a) == 1 and isinstance(a[0], dict), 'objectKeys')
    return list(a[0].keys())


def m_objectNew(a):
    out = {}
    for i in range(0, len(a), 2):
        _need(isinstance(a[i], str), 'objectNew')
        out[a[i]] = a[i + 1] if i + 1 < len(a) else None
    return out


def m_objectSet(a):
    _need(len(a) in (2, 3) and isinstance(a[0], dict) and isinstance(a[1], str), 'objectSet')
    value = a[2] if len(a) == 3 else None
    _no_cycle(a[0], [value], 'objectSet')
    a[0][a[1]] = value
    return value


def _strings(a, n, name):
    _need(len(a) == n and all(isinstance(x, str) for x in a), name)


def m_stringCharCodeAt(a):
    _need(len(a) == 2 and isinstance(a[0], str) and is_index(a[1]) and a[1] < len(a[0]), 'stringCharCodeAt')
    return ord(a[0][int(a[1])])


def m_stringEndsWith(a):
    _strings(a, 2, 'stringEndsWith')
    return a[0].endswith(a[1])


def m_stringStartsWith(a):
    _strings(a, 2, 'stringStartsWith')
    return a[0].startswith(a[1])


def m_stringFromCharCode(a):
    _need(all(is_index(x) and x <= 0x10ffff for x in a), 'stringFromCharCode')
    return ''.join(chr(int(x)) for x in a)


def m_stringIndexOf(a):
    _need(len(a) in (2, 3) and isinstance(a[0], str) and isinstance(a[1], str), 'stringIndexOf')
    ix = a[2] if len(a) == 3 else 0
    if a[1] == '':
        if is_index(ix):
            return UNSPEC
    _need(is_index(ix) and ix < len(a[0]), 'stringIndexOf')
    return a[0].find(a[1], int(ix))


def m_stringLastIndexOf(a):
    _need(len(a) in (2, 3) and isinstance(a[0], str) and isinstance(a[1], str), 'stringLastIndexOf')
    if a[1] == '' or a[0] == '':
        return UNSPEC
    if len(a) == 3 and a[2] is not None:
        ix = a[2]
        _need(is_index(ix), 'stringLastIndexOf')
    else:
        ix = len(a[0]) - 1
    _need(ix < len(a[0]), 'stringLastIndexOf')
    for i in range(min(int(ix), len(a[0]) - len(a[1])), -1, -1):
        if a[0][i:i + len(a[1])] == a[1]:
            return i
    return -1


def m_stringLength(a):
    _need(len(a) == 1 and isinstance(a[0], str), 'stringLength')
    return len(a[0])


def m_stringLower(a):
    _strings(a, 1, 'stringLower')
    return a[0].lower()


def m_stringUpper(a):
    _strings(a, 1, 'stringUpper')
    return a[0].upper()


def m_stringTrim(a):
    _strings(a, 1, 'stringTrim')
    return a[0].strip()


def m_stringNew(a):
    _need(len(a) <= 1, 'stringNew')
    return ref_string(a[0] if a else None)


def m_stringRepeat(a):
    _need(len(a) == 2 and isinstance(a[0], str) and is_index(a[1]), 'stringRepeat')
    return a[0] * int(a[1])


def m_stringReplace(a):
    _strings(a, 3, 'stringReplace')
    if a[1] == '':
        return UNSPEC
    return a[0].replace(a[1], a[2])


def m_stringSlice(a):
    _need(len(a) in (2, 3) and isinstance(a[0], str), 'stringSlice')
    start = a[1]
    end = a[2] if len(a) == 3 and a[2] is not None else len(a[0])
    _need(is_index(start) and is_index(end) and start <= len(a[0]) and end <= len(a[0]), 'stringSlice')
    return a[0][int(start):int(end)]


def m_stringSplit(a):
    _strings(a, 2, 'stringSplit')
    _need(a[1] != '', 'stringSplit')
    return a[0].split(a[1])


# ---- a few system / math functions that generated programs call ------------------------------------------------

def m_systemType(a):
    _need(len(a) <= 1, 'systemType')
    return ref_type(a[0] if a else None)


def m_systemBoolean(a):
    _need(len(a) <= 1, 'systemBoolean')
    return truthy(a[0] if a else None)


def m_systemCompare(a):
    _need(len(a) <= 2, 'systemCompare')
    a = list(a) + [None, None]
    return ref_compare(a[0], a[1])


def m_systemIs(a):
    _need(len(a) <= 2, 'systemIs')
    a = list(a) + [None, None]
    if is_number(a[0]) and is_number(a[1]):
        return a[0] == a[1]
    return a[0] is a[1]


def m_mathMax(a):
    result, first = None, True
    for v in a:
        if first or ref_compare(v, result) > 0:
            result, first = v, False
    return result


def m_mathMin(a):
    result, first = None, True
    for v in a:
        if first or ref_compare(v, result) < 0:
            result, first = v, False
    return result


def m_mathAbs(a):
    _need(len(a) == 1 and is_number(a[0]), 'mathAbs')
    return abs(a[0])


def m_mathFloor(a):
    import math
    _need(len(a) == 1 and is_number(a[0]) and math.isfinite(a[0]), 'mathFloor')
    return math.floor(a[0])


MODELS = {k[2:]: v for k, v in list(globals().items()) if k.startswith('m_')}
NEEDS_CALL = {'arrayIndexOf', 'arrayLastIndexOf', 'arraySort'}

# Every documented library function name (own transcription of the library reference)
LIBRARY_NAMES = frozenset("""
arrayCopy arrayDelete arrayExtend arrayGet arrayIndexOf arrayJoin arrayLastIndexOf arrayLength
arrayNew arrayNewSize arrayPop arrayPush arraySet arrayShift arraySlice arraySort
dataAggregate dataCalculatedField dataFilter dataJoin dataParseCSV dataSort dataTop dataValidate
datetimeDay datetimeHour datetimeISOFormat datetimeISOParse datetimeMillisecond datetimeMinute datetimeMonth datetimeNew
datetimeNow datetimeSecond datetimeToday datetimeYear jsonParse jsonStringify mathAbs mathAcos
mathAsin mathAtan mathAtan2 mathCeil mathCos mathFloor mathLn mathLog
mathMax mathMin mathPi mathRandom mathRound mathSign mathSin mathSqrt
mathTan numberParseFloat numberParseInt numberToFixed objectAssign objectCopy objectDelete objectGet
objectHas objectKeys objectNew objectSet regexEscape regexMatch regexMatchAll regexNew
regexReplace regexSplit schemaParse schemaParseEx schemaTypeModel schemaValidate schemaValidateTypeModel stringCharCodeAt
stringEndsWith stringFromCharCode stringIndexOf stringLastIndexOf stringLength stringLower stringNew stringRepeat
stringReplace stringSlice stringSplit stringStartsWith stringTrim stringUpper systemBoolean systemCompare
systemFetch systemGlobalGet systemGlobalSet systemIs systemLog systemLogDebug systemPartial systemType
urlEncode urlEncodeComponent
""".split())
