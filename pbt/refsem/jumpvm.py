"""Reference small-step semantics of jump-level BareScript models (the published model schema), as C08/C09/C17 word it.

  * statements run in order; every started statement is counted (one shared counter for the top-level list, function
    bodies however they are invoked, and included scripts); starting statement L+1 under a positive limit L aborts with
    "Exceeded maximum script statements (L)"
  * jump: if there is no condition or it is truthy, continue after the FIRST label of that name in the SAME statement list;
    no such label -> "Unknown jump label"
  * return ends the current list's invocation (script, function or included script) with its optional value
  * function binds a global function; include fetches, parses and runs each script in global scope before going on

Never imports bare_script. Expressions are evaluated by the reference evaluator of pbt.refsem.interp.
"""
import posixpath
import re

from . import interp
from .values import truthy


class VMRuntimeError(Exception):
    def __init__(self, kind, message):
        super().__init__(message)
        self.kind = kind
        self.message = message


class VMFunction:
    __slots__ = ('model',)

    def __init__(self, model):
        self.model = model

    def __call__(self, *a):
        raise RuntimeError('reference VM function called directly')


def expr_tree(e, _cache={}):
    """Model expression (dict) -> source tree understood by interp.Ref.ev."""
    key = id(e)
    hit = _cache.get(key)
    if hit is not None and hit[0] is e:
        return hit[1]
    (k, v), = e.items()
    if k == 'number':
        t = ('num', repr(v), v)
    elif k == 'string':
        t = ('str', repr(v), v)
    elif k == 'variable':
        t = ('brvar', v, v)
    elif k == 'group':
        t = ('group', expr_tree(v))
    elif k == 'unary':
        t = ('unary', v['op'], expr_tree(v['expr']))
    elif k == 'binary':
        t = ('bin', v['op'], expr_tree(v['left']), expr_tree(v['right']))
    elif k == 'function':
        t = ('call', v['name'], [expr_tree(a) for a in v.get('args', [])])
    else:
        raise AssertionError('bad expression model %r' % (e,))
    if len(_cache) > 200000:
        _cache.clear()
    _cache[key] = (e, t)
    return t


_URL = re.compile(r'^[a-z]+:')


def resolve(base, url):
    """Resolve an include path against the location of the including file (URL or POSIX path)."""
    if _URL.match(url):
        return url
    if url.startswith('/'):
        return url
    if base is None:
        return url
    if _URL.match(base):
        return base[:base.rfind('/') + 1] + url
    return posixpath.join(posixpath.dirname(base), url)


class JumpVM(interp.Ref):
    """fetch(location) -> (statements list) or raises KeyError/any exception for a missing file; parse errors are
    signalled by fetch returning ('parser-error', location)."""

    def __init__(self, globals_, log, host=None, max_statements=0, fetch=None, base=None, system_prefix=None):
        super().__init__(globals_, log, host=host, fuel=10 ** 9)
        self.limit = max_statements
        self.count = 0
        self.fetch = fetch
        self.base = base
        self.system_prefix = system_prefix
        self.fetched = []

    def ev_model(self, e, loc):
        return self.ev(expr_tree(e), loc)

    def call_value(self, f, args):
        if isinstance(f, VMFunction):
            m = f.model
            loc = {}
            params = m.get('args') or []
            last = m.get('lastArgArray')
            for i, p in enumerate(params):
                if last and i == len(params) - 1:
                    loc[p] = list(args[i:])
                else:
                    loc[p] = args[i] if i < len(args) else None
            return self.run_list(m['statements'], loc, self.base)
        return super().call_value(f, args)

    def run_list(self, statements, loc, base):
        saved_base = self.base
        self.base = base
        try:
            pc = 0
            n = len(statements)
            while pc < n:
                s = statements[pc]
                (k, v), = s.items()
                self.count += 1
                if self.limit > 0 and self.count > self.limit:
                    raise VMRuntimeError('max-statements', 'Exceeded maximum script statements (%d)' % self.limit)
                if k == 'expr':
                    value = self.ev_model(v['expr'], loc)
                    name = v.get('name')
                    if name is not None:
                        if loc is not None:
                            loc[name] = value
                        else:
                            self.g[name] = value
                elif k == 'jump':
                    if 'expr' not in v or truthy(self.ev_model(v['expr'], loc)):
                        target = next((i for i, t in enumerate(statements) if t.get('label') == v['label']), None)
                        if target is None:
                            raise VMRuntimeError('unknown-label', 'Unknown jump label "%s"' % v['label'])
                        pc = target
                elif k == 'return':
                    return self.ev_model(v['expr'], loc) if 'expr' in v else None
                elif k == 'function':
                    self.g[v['name']] = VMFunction(v)
                elif k == 'include':
                    for inc in v['includes']:
                        self.include(inc, base)
                elif k == 'label':
                    pass
                else:
                    raise AssertionError('bad statement %r' % (s,))
                pc += 1
            return None
        finally:
            self.base = saved_base

    def include(self, inc, base):
        url = inc['url']
        if inc.get('system') and self.system_prefix is not None:
            location = resolve(self.system_prefix, url)
        else:
            location = resolve(base, url)
        self.fetched.append(location)
        try:
            got = self.fetch(location) if self.fetch is not None else None
        except Exception:  # pylint: disable=broad-except
            got = None
        if got is None:
            raise VMRuntimeError('include-failed', 'Include of "%s" failed' % location)
        if isinstance(got, tuple) and got and got[0] == 'parser-error':
            raise VMRuntimeError('include-parser-error', location)
        self.run_list(got, None, location)

    def run_model(self, model):
        return self.run_list(model['statements'], None, self.base)
