"""Thin adapter to the code under test (the only place, together with the checks, that imports bare_script)."""
import importlib.resources
import types

import bare_script
from bare_script import (BareScriptParserError, BareScriptRuntimeError, evaluate_expression, execute_script,
                         lint_script, parse_expression, parse_script, validate_expression, validate_script)
from bare_script import bare as _bare
from bare_script.library import EXPRESSION_FUNCTIONS, SCRIPT_FUNCTIONS

bs = types.SimpleNamespace(
    parse_script=parse_script, parse_expression=parse_expression, execute_script=execute_script,
    evaluate_expression=evaluate_expression, lint_script=lint_script, validate_script=validate_script,
    validate_expression=validate_expression, ParserError=BareScriptParserError, RuntimeError=BareScriptRuntimeError,
    SCRIPT_FUNCTIONS=SCRIPT_FUNCTIONS, EXPRESSION_FUNCTIONS=EXPRESSION_FUNCTIONS, module=bare_script,
)


def cli_options(**extra):
    """The options the `bare` command line uses for includes (its own fetcher and system prefix)."""
    options = {'globals': {}, 'fetchFn': _bare._fetch_include, 'systemPrefix': _bare._FETCH_INCLUDE_PREFIX}  # pylint: disable=protected-access
    options.update(extra)
    return options


def include_names():
    return [p.name for p in importlib.resources.files('bare_script.include').iterdir()]


def include_text(name):
    with importlib.resources.files('bare_script.include').joinpath(name).open('rb') as fh:
        return fh.read().decode('utf-8')


class Outcome:
    """What a run of the implementation showed: kind in {'ok','runtime-error','parser-error','host-exception'}."""
    __slots__ = ('kind', 'value', 'message', 'exc', 'log', 'globals', 'count')

    def __init__(self, kind, value=None, message=None, exc=None):
        self.kind = kind
        self.value = value
        self.message = message
        self.exc = exc
        self.log = None
        self.globals = None
        self.count = None

    def __repr__(self):
        return 'Outcome(%s, %r, %r)' % (self.kind, self.value, self.message)


def run_model(model, globals_, log=None, max_statements=100000, debug=False, **options):
    opts = {'globals': globals_, 'maxStatements': max_statements}
    if log is not None:
        opts['logFn'] = log.append
    if debug:
        opts['debug'] = True
    opts.update(options)
    try:
        out = Outcome('ok', execute_script(model, opts))
    except BareScriptRuntimeError as e:
        out = Outcome('runtime-error', message=str(e), exc=e)
    except BareScriptParserError as e:
        out = Outcome('parser-error', message=str(e), exc=e)
    except RecursionError as e:
        out = Outcome('recursion', message=str(e), exc=e)
    except Exception as e:  # pylint: disable=broad-except
        out = Outcome('host-exception', message='%s: %s' % (type(e).__name__, e), exc=e)
    out.log = log
    out.globals = globals_
    out.count = opts.get('statementCount')
    return out


def run_source(src, globals_, log=None, max_statements=100000, **options):
    return run_model(parse_script(src), globals_, log, max_statements, **options)


def parse_valid(src, detail, what='generated program'):
    """Parse source that is valid by construction: any failure is a property violation of the code under test."""
    from pbt.common.core import Violation, innermost_repo_frame
    try:
        return parse_script(src)
    except BareScriptParserError as e:
        raise Violation('%s does not parse: %s' % (what, str(e)[:300]), detail, 'parse') from e
    except RecursionError:
        raise
    except Exception as e:  # pylint: disable=broad-except
        raise Violation('parse_script raised %s: %s (at %s) for a valid %s' % (type(e).__name__, str(e)[:100], innermost_repo_frame(e), what), detail,
                        'parse-host-exception:' + type(e).__name__) from e
