"""Shared plumbing for every check: case accounting, violations, Hypothesis driving, encoding.

Nothing in here knows about a particular property.
"""
import collections
import datetime
import hashlib
import json
import math
import os
import re
import sys
import time
import traceback

REGEX_TYPE = type(re.compile(''))


class Violation(Exception):
    """The code under test broke the property on a concrete case.

    detail is plain JSON-able data that `replay(detail)` of the owning check can re-evaluate.
    bucket identifies the root cause class (used to report each cause once).
    """

    def __init__(self, what, detail, bucket=None):
        super().__init__(what)
        self.what = what
        self.detail = detail
        self.bucket = bucket or what.split(':')[0]


class HarnessError(Exception):
    """The generator/oracle itself is broken - never reported as a violation."""


def digest(obj):
    if not isinstance(obj, (bytes, str)):
        obj = json.dumps(enc(obj), sort_keys=True, default=repr)
    if isinstance(obj, str):
        obj = obj.encode('utf-8', 'surrogatepass')
    return hashlib.blake2b(obj, digest_size=8).digest()


# ---------------------------------------------------------------------------------------------
# Type-tagged JSON encoding of BareScript values (for replay files and samples)
# ---------------------------------------------------------------------------------------------

def enc(v, _depth=0):
    if v is None or isinstance(v, (bool, str)):
        return v
    if _depth > 40:
        return {'$repr': '<deeper than 40 levels / cyclic>'}
    if isinstance(v, int):
        if abs(v) < 2 ** 53:
            return {'$int': v}
        return {'$bigint': str(v)}
    if isinstance(v, float):
        if math.isnan(v) or math.isinf(v) or (v == 0 and math.copysign(1, v) < 0):
            return {'$float': repr(v)}
        return v
    if isinstance(v, datetime.datetime):
        return {'$datetime': v.isoformat()}
    if isinstance(v, datetime.date):
        return {'$date': v.isoformat()}
    if isinstance(v, (list, tuple)):
        return [enc(x, _depth + 1) for x in v]
    if isinstance(v, dict):
        if all(isinstance(k, str) for k in v) and not any(k.startswith('$') for k in v):
            return {k: enc(x, _depth + 1) for k, x in v.items()}
        return {'$dict': [[enc(k), enc(x, _depth + 1)] for k, x in v.items()]}
    if isinstance(v, REGEX_TYPE):
        return {'$regex': v.pattern, 'flags': v.flags}
    if isinstance(v, (set, frozenset)):
        return sorted(enc(x) for x in v)
    if callable(v):
        return {'$function': getattr(v, '__name__', None) or 'fn'}
    if isinstance(v, bytes):
        return {'$bytes': v.hex()}
    return {'$repr': repr(v)}


def dec(v, functions=None):
    if isinstance(v, list):
        return [dec(x, functions) for x in v]
    if isinstance(v, dict):
        if '$int' in v:
            return int(v['$int'])
        if '$bigint' in v:
            return int(v['$bigint'])
        if '$float' in v:
            return float(v['$float'])
        if '$datetime' in v:
            return datetime.datetime.fromisoformat(v['$datetime'])
        if '$date' in v:
            return datetime.date.fromisoformat(v['$date'])
        if '$regex' in v:
            return re.compile(v['$regex'], v.get('flags', 0) & ~re.UNICODE)
        if '$dict' in v:
            return {dec(k, functions): dec(x, functions) for k, x in v['$dict']}
        if '$function' in v:
            name = v['$function']
            if functions and name in functions:
                return functions[name]
            return _named_function(name)
        if '$repr' in v:
            return v['$repr']
        return {k: dec(x, functions) for k, x in v.items()}
    return v


def _named_function(name):
    def fn(args, options):
        return None
    fn.__name__ = name
    return fn


# ---------------------------------------------------------------------------------------------
# Per-shard accounting
# ---------------------------------------------------------------------------------------------

class Ctx:
    MAX_SAMPLES = 4

    def __init__(self, prop, tier, seed, shard=0, nshards=1, known=None):
        self.prop = prop
        self.tier = tier
        self.seed = seed
        self.shard = shard
        self.nshards = nshards
        self.known = known or {}          # finding id -> True if the witness still fails on this tree
        self.evaluations = 0
        self.nontrivial = set()
        self.classes = collections.Counter()
        self.samples = []
        self.violations = []             # list of dict(what, bucket, detail)
        self.known_cases = collections.Counter()
        self.discarded = collections.Counter()
        self.exhaustive = {}
        self._sample_every = 1
        self._buckets = set()

    # -- accounting ---------------------------------------------------------------------------
    def case(self, key, nontrivial, classes=(), sample=None):
        """Record one case that was evaluated against the oracle."""
        self.evaluations += 1
        if nontrivial:
            self.nontrivial.add(key if isinstance(key, bytes) and len(key) == 8 else digest(key))
        for c in classes:
            self.classes[c] += 1
        if sample is not None and nontrivial:
            n = self.evaluations
            if len(self.samples) < self.MAX_SAMPLES:
                self.samples.append(sample)
            elif n % 997 == 0:
                self.samples[(n // 997) % self.MAX_SAMPLES] = sample

    def discard(self, why):
        self.discarded[why] += 1

    def known_case(self, fid):
        self.known_cases[fid] += 1

    def violation(self, v):
        if v.bucket in self._buckets:
            return
        self._buckets.add(v.bucket)
        self.violations.append({'what': v.what, 'bucket': v.bucket, 'detail': v.detail})

    def result(self):
        return {
            'evaluations': self.evaluations,
            'nontrivial': self.nontrivial,
            'classes': dict(self.classes),
            'samples': self.samples,
            'violations': self.violations,
            'known_cases': dict(self.known_cases),
            'discarded': dict(self.discarded),
            'exhaustive': self.exhaustive,
        }


# ---------------------------------------------------------------------------------------------
# Driving a property with Hypothesis
# ---------------------------------------------------------------------------------------------

SHRINK_BUDGET = 12.0


def _same_args(a, b):
    try:
        return a == b or repr(a) == repr(b)
    except Exception:  # pylint: disable=broad-except
        return False


def hyp_seed(seed, shard, salt=0):
    return (int(seed) * 1000003 + shard * 7919 + salt * 104729) % (2 ** 63)


class CaseTimeout(BaseException):
    """One generated case ran longer than CASE_TIMEOUT seconds (BaseException: the code under test must not be able to swallow it)."""


CASE_TIMEOUT = 180.0


def _alarm(signum, frame):
    raise CaseTimeout()


def run_hypothesis(ctx, prop, strategies, max_examples, salt=0, shrink=True, exclude_buckets=True, rounds=3, minimise=None):
    """Run `prop(*drawn)` under Hypothesis. prop raises Violation on a property failure.

    Every failure is shrunk by Hypothesis; the shrunk case (the last failing execution, which is
    Hypothesis' final replay of the minimal example) is recorded in ctx.violations.  After a failure the
    search is continued (up to `rounds` times) with that root-cause bucket suppressed, so that one
    shallow defect does not hide what lies behind it.
    """
    import hypothesis
    from hypothesis import HealthCheck, Phase, given, settings, strategies as st

    suppressed = set()
    phases = [Phase.explicit, Phase.generate, Phase.target] + ([Phase.shrink] if shrink else [])
    for round_ in range(rounds):
        last = {}

        def wrapped(args):
            # Hypothesis' shrinker has no time limit of its own (only a hard 5 minute cap): once SHRINK_BUDGET seconds
            # have passed since the first failure, only the best failing input found so far keeps failing, so the
            # shrinker converges at once and the final replay still reproduces.
            if 't0' in last and time.time() - last['t0'] > SHRINK_BUDGET and not _same_args(args, last.get('args')):
                return
            try:
                import signal
                signal.signal(signal.SIGALRM, _alarm)
                signal.setitimer(signal.ITIMER_REAL, CASE_TIMEOUT)
                try:
                    prop(*args)
                finally:
                    signal.setitimer(signal.ITIMER_REAL, 0)
            except CaseTimeout:
                # a time budget hit is inconclusive, never a violation by itself (a check that knows the case must be fast catches
                # CaseTimeout itself and reports what it means)
                ctx.discard('case-timeout-%ds' % int(CASE_TIMEOUT))
                return
            except MemoryError:
                # the shard's address-space net (pbt.run) was hit: a generated case built gigabytes of data; resource
                # exhaustion of the host is outside every property, the case is discarded
                import gc
                gc.collect()
                ctx.discard('memory-exhausted')
                return
            except Violation as v:
                if v.bucket in suppressed:
                    ctx.known_case('suppressed-after-report:' + v.bucket)
                    return
                last['v'] = v
                last['args'] = args
                last.setdefault('t0', time.time())
                raise

        st_settings = settings(
            max_examples=max_examples, database=None, deadline=None, derandomize=False,
            report_multiple_bugs=False, phases=phases, print_blob=False,
            suppress_health_check=list(HealthCheck),
        )
        test = hypothesis.seed(hyp_seed(ctx.seed, ctx.shard, salt * 16 + round_))(st_settings(given(st.tuples(*strategies))(wrapped)))
        try:
            test()
            return
        except Violation as v:
            v = last.get('v', v)
            if minimise is not None:
                try:
                    v = minimise(v) or v
                except Violation as v2:
                    v = v2
                except Exception:  # pylint: disable=broad-except
                    pass     # minimisation is best effort; the unminimised case is still a valid replay
            ctx.violation(v)
            if not exclude_buckets:
                return
            suppressed.add(v.bucket)
        except hypothesis.errors.Flaky as e:
            # The same generated input failed once and passed when Hypothesis replayed it. The harness is a pure function of
            # (code, seed), so this means the code under test keeps state between calls (a cache, a module-level table): the
            # recorded failure was a real observation and is reported; its replay file may need the preceding history.
            v = last.get('v')
            if v is None:
                raise HarnessError('flaky property: %s' % e) from e
            v.detail = dict(v.detail, history_dependent='the failure depends on earlier calls in the same process (did not reproduce on immediate replay)')
            v.what = '[history-dependent] ' + v.what
            ctx.violation(v)
            return


def rnd_strategy():
    from hypothesis import strategies as st
    return st.randoms(use_true_random=False)


# ---------------------------------------------------------------------------------------------
# Generic minimiser for line-oriented sources (used when a failure was found outside Hypothesis)
# ---------------------------------------------------------------------------------------------

def ddmin_list(items, still_fails, max_tests=400):
    """Classic ddmin over a list; still_fails(list) -> bool must be side-effect free."""
    tests = 0
    n = 2
    items = list(items)
    while len(items) >= 2 and tests < max_tests:
        chunk = max(1, len(items) // n)
        reduced = False
        for start in range(0, len(items), chunk):
            cand = items[:start] + items[start + chunk:]
            tests += 1
            try:
                bad = bool(cand) and still_fails(cand)
            except Exception:  # pylint: disable=broad-except
                bad = False
            if bad:
                items = cand
                n = max(n - 1, 2)
                reduced = True
                break
            if tests >= max_tests:
                break
        if not reduced:
            if chunk == 1:
                break
            n = min(len(items), n * 2)
    return items


def tb_short(exc):
    return ''.join(traceback.format_exception_only(type(exc), exc)).strip()


def innermost_repo_frame(exc):
    """(file:function) of the innermost bare_script frame of an exception's traceback."""
    tb = exc.__traceback__
    where = None
    while tb is not None:
        fn = tb.tb_frame.f_code.co_filename
        if 'bare_script' in fn:
            where = '%s:%s' % (os.path.basename(fn), tb.tb_frame.f_code.co_name)
        tb = tb.tb_next
    return where or 'outside'
