"""Coverage-guided fuzz target (atheris / libFuzzer) for parse_script and parse_expression, with the C06 / C02 oracles inside.

    python -m pbt.fuzz_parser <out.json> [libFuzzer flags ...] <corpus dir>

The target decodes the bytes to text, runs the C06 oracle for arbitrary text (only BareScriptParserError escapes, diagnostics are
well formed, accepted text loses a statement when a logical line is deleted, no open block / dangling continuation is accepted) and
the C02 rejection oracle on the first line (accepted expressions are schema-valid). The first violation is written to <out.json>
and the process exits with status 77; a normal end of the campaign exits 0.
"""
import json
import os
import sys


def main():
    out_path = sys.argv[1]
    argv = [sys.argv[0]] + sys.argv[2:]
    import atheris
    with atheris.instrument_imports(include=['bare_script']):
        from pbt.common import impl  # noqa: F401
    from pbt.checks import c06, c02
    from pbt.common.core import Violation

    excluded = [0]

    def test_one_input(data):
        text = data.decode('utf-8', 'replace')
        if len(text) > 1500 or any(len(ln) > 400 for ln in text.split('\n')):
            return
        if '\\' * 9 in text:
            # outside the property's quantifier (backslash runs <= 8): an unterminated string literal that holds a long backslash run
            # makes the string regex backtrack exponentially (DESIGN section 7); libFuzzer would stop the campaign at its first -timeout
            excluded[0] += 1
            if excluded[0] % 200 == 1:
                with open(out_path + '.excluded', 'w', encoding='utf-8') as fh:
                    fh.write(str(excluded[0]))
            return
        try:
            c06.check_any_text(text, 1, 'soup')
            first = text.split('\n', 1)[0]
            if first.strip() and len(first) < 200:
                status, got = c02.impl_parse(first)
                if status == 'exc':
                    raise Violation('parse_expression(%r) raised %s' % (first, type(got).__name__), {'kind': 'tokens', 'text': first, 'expected': None},
                                    'host-exception')
                if status == 'invalid':
                    raise Violation('parse_expression(%r) returned a model that is not schema-valid' % first, {'kind': 'tokens', 'text': first, 'expected': None},
                                    'schema-invalid')
        except Violation as v:
            with open(out_path, 'w', encoding='utf-8') as fh:
                json.dump({'what': v.what, 'bucket': v.bucket, 'detail': v.detail}, fh, default=repr)
            os._exit(77)
        except RecursionError:
            return

    atheris.Setup(argv, test_one_input)
    atheris.Fuzz()


if __name__ == '__main__':
    main()
