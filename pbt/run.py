"""One CLI for every check.

    python -m pbt.run C07 --tier quick|thorough
    python -m pbt.run C07 --replay /verif/replays/C07/<sha>.json

Exit codes: 0 property held on everything explored (KNOWN-FINDING lines allowed)
            1 at least one violation that KNOWN_FINDINGS.txt does not list (VIOLATION line printed)
            2 the harness itself failed (never reported as a violation)
"""
import argparse
import hashlib
import importlib
import json
import multiprocessing
import os
import sys
import time
import traceback

ROOT = os.path.dirname(os.path.dirname(os.path.abspath(__file__)))
sys.setrecursionlimit(10000)
import warnings  # noqa: E402
warnings.filterwarnings('ignore', message='Generating overly large repr')

from pbt.common.core import Ctx, HarnessError, Violation, enc  # noqa: E402

WALL_GUARD = {'quick': 1500, 'thorough': 6 * 3600}


def load_known(prop):
    """known: property=C01 id=F7 witness=corpus/C01/x.json <text>   /   fixed: property=C20 <commit> <text>"""
    known = {}
    path = os.path.join(ROOT, 'KNOWN_FINDINGS.txt')
    if not os.path.exists(path):
        return known
    with open(path, encoding='utf-8') as fh:
        for line in fh:
            line = line.strip()
            if not line.startswith('known:'):
                continue
            fields = dict(p.split('=', 1) for p in line.split()[1:4] if '=' in p)
            if fields.get('property') != prop:
                continue
            text = ' '.join(line.split()[4:])
            known[fields['id']] = {'witness': os.path.join(ROOT, fields['witness']), 'text': text}
    return known


def _worker(args):
    modname, tier, seed, shard, nshards, spec, known_active = args
    if os.environ.get('VERIF_DUMP_AFTER'):
        import faulthandler
        faulthandler.dump_traceback_later(int(os.environ['VERIF_DUMP_AFTER']), exit=False)
    try:
        mod = importlib.import_module(modname)
        ctx = Ctx(mod.ID, tier, seed, shard, nshards, known_active)
        t0 = time.time()
        mod.run_shard(ctx, spec)
        res = ctx.result()
        # plain data only: whatever the code under test returned (exception objects, closures, ...) must not break pickling
        res['samples'] = json.loads(json.dumps(enc(res['samples']), default=repr))
        res['violations'] = json.loads(json.dumps(res['violations'], default=repr))     # details are already plain data (checks enc() values)
        res['wall'] = time.time() - t0
        res['spec'] = spec
        return ('ok', res)
    except Exception:  # pylint: disable=broad-except
        return ('harness-error', 'shard %r: %s' % (spec, traceback.format_exc()))


MEMORY_NET = 4 << 30      # soft address-space limit of one shard process


def _child(conn, task):
    try:
        import resource
        hard = resource.getrlimit(resource.RLIMIT_AS)[1]
        resource.setrlimit(resource.RLIMIT_AS, (MEMORY_NET if hard == resource.RLIM_INFINITY else min(MEMORY_NET, hard), hard))
    except (ImportError, ValueError, OSError):
        pass
    # Hypothesis times garbage collections through a gc callback (only used for its deadline, which the checks switch off). When a collection starts
    # while a deliberately deep evaluation has used up the stack, that callback cannot even be entered and CPython prints "Exception ignored in ...
    # RecursionError" on stderr - noise (the check handles the RecursionError of the evaluation itself). So the callback is not installed here.
    try:
        import gc
        from hypothesis.internal.conjecture import junkdrawer
        junkdrawer._gc_initialized = True       # pylint: disable=protected-access
        gc.callbacks[:] = [cb for cb in gc.callbacks if 'gc_cumulative_time' not in getattr(cb, '__qualname__', '')]
    except Exception:  # pylint: disable=broad-except
        pass
    try:
        conn.send(_worker(task))
    finally:
        conn.close()


def _run_tasks(tasks, procs, deadline, guard):
    """One forked process per shard, at most `procs` at a time. A shard process that dies without a result (killed by the OOM killer,
    a crash of the interpreter) is a harness error - never a hang and never a violation."""
    from multiprocessing.connection import wait
    ctxmp = multiprocessing.get_context('fork')
    pending = list(enumerate(tasks))
    running = {}        # conn -> (index, process)
    results = [None] * len(tasks)
    try:
        while pending or running:
            while pending and len(running) < procs:
                ix, task = pending.pop(0)
                parent, child = ctxmp.Pipe(duplex=False)
                proc = ctxmp.Process(target=_child, args=(child, task))
                proc.start()
                child.close()
                running[parent] = (ix, proc)
            remaining = deadline - time.time()
            if remaining <= 0:
                raise HarnessError('wall-clock guard of %ds hit (inconclusive)' % guard)
            for conn in wait(list(running), timeout=min(remaining, 5.0)):
                ix, proc = running.pop(conn)
                try:
                    results[ix] = conn.recv()
                except EOFError:
                    proc.join()
                    results[ix] = ('harness-error', 'shard %r: worker process ended without a result (exit code %r; out of memory?)'
                                   % (tasks[ix][5], proc.exitcode))
                conn.close()
                proc.join()
    finally:
        for conn, (ix, proc) in running.items():
            proc.kill()
            proc.join()
    return results


def write_replay(prop, violation):
    d = os.path.join(ROOT, 'work', 'replays-scratch', prop) if os.environ.get('VERIF_REPO_SRC') else os.path.join(ROOT, 'replays', prop)
    os.makedirs(d, exist_ok=True)
    body = json.dumps({'property': prop, 'what': violation['what'], 'bucket': violation['bucket'],
                       'detail': violation['detail']}, indent=1, sort_keys=True, default=repr)
    name = hashlib.sha1(body.encode('utf-8', 'surrogatepass')).hexdigest()[:16] + '.json'
    path = os.path.join(d, name)
    with open(path, 'w', encoding='utf-8', errors='surrogatepass') as fh:
        fh.write(body)
    return path


def load_detail(path):
    with open(path, encoding='utf-8', errors='surrogatepass') as fh:
        data = json.load(fh)
    return data['detail'] if isinstance(data, dict) and 'detail' in data else data


def main(argv=None):
    ap = argparse.ArgumentParser()
    ap.add_argument('prop')
    ap.add_argument('--tier', default=os.environ.get('VERIF_TIER', 'quick'), choices=['quick', 'thorough'])
    ap.add_argument('--replay')
    ap.add_argument('--procs', type=int, default=int(os.environ.get('VERIF_PROCS', '16')))
    args = ap.parse_args(argv)
    prop = args.prop.upper()
    seed = int(os.environ.get('VERIF_SEED', '1') or '1')
    modname = 'pbt.checks.' + prop.lower()
    t_start = time.time()
    try:
        mod = importlib.import_module(modname)
    except Exception:  # pylint: disable=broad-except
        traceback.print_exc()
        print('HARNESS-ERROR property=%s cannot import check' % prop)
        return 2

    # ---- replay mode --------------------------------------------------------------------------
    if args.replay:
        try:
            detail = load_detail(args.replay)
            mod.replay(detail)
        except Violation as v:
            print('replayed: %s' % v.what)
            print('VIOLATION property=%s replay=%s' % (prop, os.path.abspath(args.replay)))
            return 1
        except Exception:  # pylint: disable=broad-except
            traceback.print_exc()
            print('HARNESS-ERROR property=%s replay failed to run' % prop)
            return 2
        print('replay: property %s holds on %s' % (prop, args.replay))
        return 0

    violations = []      # (what, replay path)
    known_lines = []
    try:
        # ---- known findings: replay each witness to see whether the defect is still there ---------
        known = load_known(prop)
        known_active = {}
        witness_paths = set()
        for fid, entry in sorted(known.items()):
            witness_paths.add(os.path.abspath(entry['witness']))
            try:
                mod.replay(load_detail(entry['witness']))
                known_active[fid] = False
            except Violation:
                known_active[fid] = True
                known_lines.append('KNOWN-FINDING: property=%s %s %s' % (prop, fid, entry['text']))

        # ---- regression corpus (seconds) -------------------------------------------------------------
        corpus_dir = os.path.join(ROOT, 'corpus', prop)
        corpus_n = 0
        if os.path.isdir(corpus_dir):
            for name in sorted(os.listdir(corpus_dir)):
                path = os.path.join(corpus_dir, name)
                if not name.endswith('.json') or os.path.abspath(path) in witness_paths:
                    continue
                corpus_n += 1
                try:
                    mod.replay(load_detail(path))
                except Violation as v:
                    fid = getattr(mod, 'known_class', lambda d: None)(v.detail)
                    if fid and known_active.get(fid):
                        continue
                    violations.append((v.what, path))

        # ---- generated search, sharded ------------------------------------------------------------------
        specs = mod.plan(args.tier)
        tasks = [(modname, args.tier, seed, i, len(specs), spec, known_active) for i, spec in enumerate(specs)]
        procs = max(1, min(args.procs, len(tasks)))
        results = []
        if procs == 1:
            results = [_worker(t) for t in tasks]
        else:
            results = _run_tasks(tasks, procs, t_start + WALL_GUARD[args.tier], WALL_GUARD[args.tier])
        errors = [r[1] for r in results if r[0] != 'ok']
        if errors:
            raise HarnessError('\n'.join(errors))

        # ---- merge ----------------------------------------------------------------------------------------
        evaluations = 0
        nontrivial = set()
        classes, known_cases, discarded, exhaustive = {}, {}, {}, {}
        samples = []
        shard_walls = []
        seen_buckets = set()
        for _, r in results:
            evaluations += r['evaluations']
            nontrivial |= r['nontrivial']
            for name, tgt in (('classes', classes), ('known_cases', known_cases), ('discarded', discarded)):
                for k, n in r[name].items():
                    tgt[k] = tgt.get(k, 0) + n
            exhaustive.update(r['exhaustive'])
            shard_walls.append(round(r['wall'], 2))
            for s in r['samples']:
                if len(samples) < 8:
                    samples.append(s)
            for v in r['violations']:
                if v['bucket'] in seen_buckets:
                    continue
                seen_buckets.add(v['bucket'])
                violations.append((v['what'], write_replay(prop, v)))

        wall = time.time() - t_start
        rule = mod.RULE
        evidence = {
            'property_id': prop,
            'tier': args.tier,
            'seed': seed,
            'level': getattr(mod, 'LEVEL', 'exploration'),
            'coverage': {
                'evaluations': evaluations + corpus_n,
                'distinct_nontrivial': len(nontrivial),
                'rule': rule,
                'samples': enc(samples),
                'exhaustive': bool(exhaustive) and all(exhaustive.values()) and getattr(mod, 'ALL_EXHAUSTIVE', False),
                'exhaustive_parts': exhaustive,
                'classes': dict(sorted(classes.items())),
                'discarded': discarded,
                'known_finding_cases': known_cases,
                'known_findings_active': [k for k, a in sorted(known_active.items()) if a],
                'corpus_replayed': corpus_n,
                'shards': len(specs),
                'shard_wall_s': shard_walls,
            },
            'assumptions': list(getattr(mod, 'ASSUMPTIONS', [])),
            'wall_s': round(wall, 2),
            'violations': len(violations),
        }
        # runs against a scratch copy (sensitivity tests with VERIF_REPO_SRC) must not overwrite the evidence of /repo
        evdir = os.path.join(ROOT, 'work', 'evidence-scratch') if os.environ.get('VERIF_REPO_SRC') else os.path.join(ROOT, 'evidence')
        os.makedirs(evdir, exist_ok=True)
        with open(os.path.join(evdir, prop + '.json'), 'w', encoding='utf-8') as fh:
            json.dump(evidence, fh, indent=1, sort_keys=True, default=repr)
            fh.write('\n')
    except HarnessError as e:
        print(str(e))
        print('HARNESS-ERROR property=%s (exit 2: inconclusive, not a violation)' % prop)
        return 2
    except Exception:  # pylint: disable=broad-except
        traceback.print_exc()
        print('HARNESS-ERROR property=%s (exit 2: inconclusive, not a violation)' % prop)
        return 2

    for line in known_lines:
        print(line)
    print('%s %s seed=%d: %d cases, %d distinct non-trivial, %d shards, %.1fs' % (
        prop, args.tier, seed, evidence['coverage']['evaluations'], len(nontrivial), len(specs), wall))
    if violations:
        for what, path in violations:
            print('  violated: %s' % what[:300])
            print('VIOLATION property=%s replay=%s' % (prop, path))
        return 1
    return 0


if __name__ == '__main__':
    sys.exit(main())
