"""Confirm a seeded change and run checks against it (scratch copy; nothing is committed to /repo).

    python3 tools/seedtest.py <dir with patch.diff demo.py meta.json> <dest name under /verif/seeded> [--tier quick] [-- C01 C05 ...]

Steps: copy /repo (tracked files) to a temp dir; run demo on the clean copy (must exit 0); apply patch; run the suite (must be 410 passed /
8 failed); run demo (must exit != 0); run the named checks (default: the property in meta.json) against the patched copy. If everything
is confirmed the change is stored as /verif/seeded/<dest>/ with the results appended to meta.json.
"""
import json
import os
import shutil
import subprocess
import sys
import tempfile


def run(cmd, **kw):
    return subprocess.run(cmd, capture_output=True, text=True, **kw)


def main():
    argv = sys.argv[1:]
    checks = []
    if '--' in argv:
        i = argv.index('--')
        argv, checks = argv[:i], argv[i + 1:]
    tier = 'quick'
    if '--tier' in argv:
        i = argv.index('--tier')
        tier = argv[i + 1]
        del argv[i:i + 2]
    src_dir, dest = os.path.abspath(argv[0]), argv[1]
    meta = json.load(open(os.path.join(src_dir, 'meta.json')))
    prop = meta.get('property', dest[:3])
    if not checks:
        checks = [prop]
    tmp = tempfile.mkdtemp(prefix='seed_')
    result = {'confirmed': False}
    try:
        work = os.path.join(tmp, 'repo')
        run(['git', 'clone', '-q', '/repo', work])
        env = dict(os.environ, PYTHONPATH=os.path.join(work, 'src'), PYTHONDONTWRITEBYTECODE='1')
        demo = os.path.join(src_dir, 'demo.py')
        r0 = run(['/venv/bin/python', demo], env=env, cwd=tmp, timeout=600)
        result['demo_clean_exit'] = r0.returncode
        patch_path = os.path.abspath(os.path.join(src_dir, 'patch.diff'))
        ap = run(['git', '-C', work, 'apply', patch_path])
        if ap.returncode != 0:
            # the patch was written against an older /repo HEAD (before later fix: commits): apply with context fuzz
            ap = run(['patch', '-p1', '-d', work, '--no-backup-if-mismatch', '-i', patch_path])
            if ap.returncode != 0:
                print('PATCH DOES NOT APPLY', ap.stdout[-300:], ap.stderr[:300])
                return 2
            rebased = run(['git', '-C', work, 'diff']).stdout
            result['rebased_patch'] = rebased
        st = run(['/venv/bin/python', '-m', 'pytest', '-q', '-p', 'no:cacheprovider', 'src/tests'], env=env, cwd=work, timeout=900)
        last = st.stdout.strip().splitlines()[-1] if st.stdout.strip() else st.stderr[-200:]
        result['suite'] = last
        r1 = run(['/venv/bin/python', demo], env=env, cwd=tmp, timeout=600)
        result['demo_patched_exit'] = r1.returncode
        result['demo_patched_output'] = (r1.stdout + r1.stderr)[-600:]
        ok = r0.returncode == 0 and r1.returncode != 0 and '410 passed' in last and '8 failed' in last
        result['confirmed'] = ok
        print('clean demo exit %d, patched demo exit %d, suite: %s  => %s' % (r0.returncode, r1.returncode, last, 'CONFIRMED' if ok else 'NOT CONFIRMED'))
        result['checks'] = {}
        for c in checks:
            env2 = dict(os.environ, VERIF_REPO_SRC=os.path.join(work, 'src'), VERIF_TIER=tier)
            rc = run(['/verif/vrun', c, '--tier', tier], env=env2, timeout=7200)
            lines = [ln for ln in rc.stdout.splitlines() if 'violated' in ln or 'HARNESS' in ln]
            verdict = {0: 'SURVIVED', 1: 'KILLED', 2: 'HARNESS-ERROR'}.get(rc.returncode, str(rc.returncode))
            result['checks'][c] = {'tier': tier, 'verdict': verdict, 'first_violation': lines[0].strip()[:300] if lines else None}
            print('  %s (%s): %s  %s' % (c, tier, verdict, lines[0].strip()[:220] if lines else ''))
            if rc.returncode == 2:
                print(rc.stdout[-800:], rc.stderr[-800:])
        if ok:
            out = os.path.join('/verif/seeded', dest)
            os.makedirs(out, exist_ok=True)
            for name in ('patch.diff', 'demo.py'):
                if os.path.abspath(os.path.join(src_dir, name)) != os.path.abspath(os.path.join(out, name)):
                    shutil.copy(os.path.join(src_dir, name), os.path.join(out, name))
            if result.get('rebased_patch'):
                with open(os.path.join(out, 'patch.diff'), 'w') as fh:
                    fh.write(result['rebased_patch'])
            old = {}
            if os.path.exists(os.path.join(out, 'meta.json')):
                old = json.load(open(os.path.join(out, 'meta.json')))
            meta['confirmed'] = {'suite_with_change': last, 'demo_exit_clean_tree': r0.returncode, 'demo_exit_with_change': r1.returncode,
                                 'how': 'tools/seedtest.py: git clone of /repo into a temp dir, git apply, pytest src/tests, demo.py'}
            merged = dict(old.get('checks', {}))
            merged.update(result['checks'])
            meta['checks'] = merged
            json.dump(meta, open(os.path.join(out, 'meta.json'), 'w'), indent=1)
    finally:
        shutil.rmtree(tmp, ignore_errors=True)
    return 0


sys.exit(main())
