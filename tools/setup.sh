#!/bin/sh
# Offline setup: verify the interpreter and its packages; install atheris (fuzz targets, thorough tier) if its wheel is present.
set -e
cd /verif
/venv/bin/python -c "import hypothesis, schema_markdown, sys; sys.path.insert(0, '/repo/src'); import bare_script; print('hypothesis', hypothesis.__version__)" || \
  /venv/bin/pip install --no-index --find-links /opt/veriftools/wheels hypothesis
mkdir -p /verif/.deps /verif/evidence /verif/replays
/venv/bin/python -c "import sys; sys.path.insert(0,'/verif/.deps'); import atheris" 2>/dev/null || \
  /venv/bin/pip install -q --no-index --find-links /opt/veriftools/wheels --target /verif/.deps atheris 2>/dev/null || \
  echo "atheris not installed (fuzz add-on of the thorough tier is skipped)"
echo setup ok
