"""Sensitivity testing: apply one textual mutation to a scratch copy of /repo/src and run checks against it.

    python tools/mutant.py <file relative to src/bare_script> <old> <new> [--suite] -- C12 C15 ...

Exits 0 and prints, per check, KILLED (exit 1 with VIOLATION) or SURVIVED. The scratch copy is removed afterwards.
"""
import os, shutil, subprocess, sys, tempfile

def main():
    argv = sys.argv[1:]
    sep = argv.index('--')
    opts, checks = argv[:sep], argv[sep + 1:]
    suite = '--suite' in opts
    opts = [o for o in opts if o != '--suite']
    rel, old, new = opts[:3]
    count = int(opts[3]) if len(opts) > 3 else 1
    tmp = tempfile.mkdtemp(prefix='mut_')
    try:
        src = os.path.join(tmp, 'src')
        shutil.copytree('/repo/src', src, ignore=shutil.ignore_patterns('__pycache__', '*.egg-info'))
        path = os.path.join(src, 'bare_script', rel)
        text = open(path).read()
        if text.count(old) < 1:
            print('MUTATION DOES NOT APPLY'); return 2
        text = text.replace(old, new, count)
        open(path, 'w').write(text)
        env = dict(os.environ, VERIF_REPO_SRC=src, PYTHONPATH=src)
        if suite:
            r = subprocess.run(['/venv/bin/python', '-m', 'pytest', '-q', '-p', 'no:cacheprovider', os.path.join(src, 'tests')],
                               cwd=tmp, env=env, capture_output=True, text=True)
            last = r.stdout.strip().splitlines()[-1] if r.stdout.strip() else r.stderr[-300:]
            print('suite:', last, '(baseline: 8 failed, 410 passed)')
        for c in checks:
            r = subprocess.run(['/verif/vrun', c], env=env, capture_output=True, text=True)
            lines = [l for l in r.stdout.splitlines() if 'violated' in l or 'HARNESS' in l]
            print('%s: %s  %s' % (c, {0: 'SURVIVED', 1: 'KILLED', 2: 'HARNESS-ERROR'}.get(r.returncode, r.returncode), (lines[0][:200] if lines else '')))
            if r.returncode == 2:
                print(r.stdout[-1500:], r.stderr[-1500:])
    finally:
        shutil.rmtree(tmp, ignore_errors=True)
    return 0

sys.exit(main())
