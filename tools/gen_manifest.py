"""Regenerate /verif/MANIFEST.json from the table below (keeps the file valid by construction)."""
import json, os, sys
ROOT = os.path.dirname(os.path.dirname(os.path.abspath(__file__)))
sys.path.insert(0, ROOT)
from tools.manifest_table import CHECKS, NOT_APPLICABLE, HOOK_COMMITS  # noqa: E402

ENV = 'PYTHONHASHSEED=0 PYTHONDONTWRITEBYTECODE=1 PYTHONPATH=/repo/src:/verif:/verif/.deps'
PY = '/venv/bin/python'

def cmd(pid, tier):
    return '%s %s -m pbt.run %s --tier %s' % (ENV, PY, pid, tier)

manifest = {
    'version': 1,
    'setup_cmd': 'sh /verif/tools/setup.sh',
    'hooks': {
        'guard': 'BARE_SCRIPT_VERIF',
        'enable': 'no hooks are needed: every observable the properties name is public API (logFn, fetchFn, urlFn, globals, '
                  'statementCount, exceptions). Checks import /repo/src directly (PYTHONPATH), so they always run the current '
                  'working tree; there is nothing to build.',
        'baseline_off_cmd': 'cd /repo && /venv/bin/python -m pytest -ra -q -p no:cacheprovider --timeout=900 --continue-on-collection-errors',
        'source_commits': HOOK_COMMITS,
        'add_only': True,
    },
    'engines': [
        {'name': 'pbt', 'path': '/verif/pbt', 'serves_properties': [c['id'] for c in CHECKS],
         'kind_free_text': 'Hypothesis 6.168 property tests + exhaustive small-scope enumeration, sharded over 16 processes, '
                           'against independent reference models (pbt/refsem); atheris fuzz targets for the parser in the thorough tier'},
    ],
    'checks': [
        {
            'property_id': c['id'],
            'quick_cmd': cmd(c['id'], 'quick'),
            'thorough_cmd': cmd(c['id'], 'thorough'),
            'evidence_file': '/verif/evidence/%s.json' % c['id'],
            'replay_cmd_template': '%s %s -m pbt.run %s --replay {path}' % (ENV, PY, c['id']),
            'engine': 'pbt',
            'level_claimed': {'category': 'exploration', 'text': c['level'], 'design_ref': 'DESIGN.md section 5, ' + c['id']},
            'level_note': c['note'],
            'technique': c['technique'],
        } for c in CHECKS
    ],
    'not_applicable': NOT_APPLICABLE,
    'notes': 'All checks: exit 0 held / 1 VIOLATION line / 2 harness inconclusive. VERIF_SEED selects the Hypothesis seeds. '
             'Known findings: /verif/KNOWN_FINDINGS.txt. Seeded breaking changes used to test the checks: /verif/seeded/.',
}
with open(os.path.join(ROOT, 'MANIFEST.json'), 'w') as fh:
    json.dump(manifest, fh, indent=1)
    fh.write('\n')
try:
    import jsonschema
    jsonschema.validate(manifest, json.load(open('/root/.vp/MANIFEST.schema.json')))
    print('MANIFEST.json valid,', len(CHECKS), 'checks,', len(NOT_APPLICABLE), 'not applicable')
except ImportError:
    print('MANIFEST.json written (jsonschema not importable here)')
