"""Source of truth for MANIFEST.json. A property is claimed only once its check module exists under pbt/checks."""
import os

ROOT = os.path.dirname(os.path.dirname(os.path.abspath(__file__)))
HOOK_COMMITS = []

TRUST = ('Trusted: CPython 3.12 (float arithmetic/repr, str, list.sort, datetime, zoneinfo, json, re), Hypothesis, and the '
         'reference model in /verif/pbt/refsem, which never imports bare_script. Bounded search: it shows the property on the '
         'cases explored, not absence of violations.')

_ALL = [
    dict(id='C01', technique='differential testing of generated structured programs against an independent big-step interpreter (Hypothesis + exhaustive nesting shapes)',
         level='Exhaustive nesting shapes of the seven constructs plus Hypothesis-generated programs with functions, probes and all nine '
               'global value types, each executed by parse_script+execute_script and by an independent big-step reference; return value, '
               'log/probe event sequence and final globals must agree.'),
    dict(id='C02', technique='exhaustive operator chains + generated trees/token strings against an independent precedence-climbing parser and recogniser',
         level='All operator chains to length 3/4 with unary/group variants, random printed trees (round trip to the tree they were printed '
               'from) and token soups (accept/reject agreement with an independent recogniser, rejection only by BareScriptParserError).'),
    dict(id='C03', technique='differential testing of generated expressions against an independent typed evaluator with effect probes',
         level='Full operator x type x type matrix plus Hypothesis-generated expression trees with effect probes, evaluated through '
               'evaluate_expression and through scripts, compared with the reference evaluator; every documented built-in alias compared '
               'with its library function.'),
    dict(id='C04', technique='differential testing of generated multi-function programs (scoping/arity/host globals) against a reference interpreter',
         level='Generated programs with up to 4 functions, arity mismatches, name collisions, function values, systemPartial and callbacks, under '
               'host globals that shadow library names; compared with the reference scoping rules and with direct invariants on options["globals"].'),
    dict(id='C05', technique='adversarial-operand property testing with exception bucketing (only documented exceptions escape)',
         level='Adversarial operands and argument lists for every operator and every library function, host functions that raise; only '
               'BareScriptRuntimeError/ParserError may escape, results must be BareScript values, failing calls evaluate to null/documented value and log in debug mode.'),
    dict(id='C06', technique='grammar-aware fuzzing of parse_script (token soup, mutated programs, fault injection at every gap) with a position oracle; atheris add-on',
         level='Token soups, mutants of valid programs and an illegal token injected at every inter-token gap of every statement kind; only '
               'BareScriptParserError escapes and its line number, line text, column and caret are checked against independently computed positions.'),
    dict(id='C07', technique='exhaustive enumeration of nesting shapes + generated programs, checked with an independent per-scope label analysis',
         level='Every nesting shape to depth 2/3 (sampled deeper) in three scope placements: schema-valid, every generated jump has exactly one '
               'label in scope, every generated label is used, lint reports no label warning, running never raises Unknown jump label.'),
    dict(id='C08', technique='exhaustive small-scope enumeration of jump-level models against an independent jump VM',
         level='Every statement list to length 5/6 over a 14-symbol alphabet plus random 40-statement models, executed by the implementation '
               'and by an independent small-step VM; result/error, marker path, statement count, globals, model immutability and re-execution.'),
    dict(id='C09', technique='metamorphic + reference-count testing of the statement budget over every limit',
         level='Generated terminating and non-terminating programs (loops, recursion, library callbacks, data helpers, includes) under every '
               'limit 1..N+2 and 0: effect bound, exact abort point against the reference count, prefix property, limit monotonicity.'),
    dict(id='C10', technique='metamorphic testing: semantics-preserving layout rewrites must give an identical model',
         level='Generated programs and all shipped .bare scripts under CRLF/chunking/comment+blank insertion/indentation/trailing blanks/'
               'continuation at any token gap: the parsed model must be identical; parsing is deterministic and stateless.'),
    dict(id='C11', technique='algebraic-law testing of the comparison over a value pool (all pairs, exhaustive/random triples) + consumer agreement',
         level='Several hundred values of all nine types: all pairs, triples, laws of a total preorder, reference comparison where the statement '
               'fixes the answer, int/float respelling invariance, and every consumer (operators, sort, dataSort, min/max, indexOf) against it.'),
    dict(id='C12', technique='metamorphic testing: int vs float respelling of every library call and operator',
         level='Every library function and operator with generated argument lists run twice, integral numbers as int and as float (recursively); '
               'result, failure behaviour and post-call arguments must agree; index/count/size/radix/digits also through script literals.'),
    dict(id='C13', technique='round-trip property testing over IEEE-754 doubles and numeric near-miss strings',
         level='Random bit patterns and boundary doubles: all stringification routes agree, parse back exactly, integral values print as integers, '
               'literals re-parse; number parsers return null or a finite number for arbitrary text.'),
    dict(id='C14', technique='round-trip property testing of JSON values (exhaustive short punctuation strings + Hypothesis)',
         level='Every string of length <= 4 over {a . 0 , ] }} in 6 embeddings plus generated JSON values to depth 5: output is valid JSON for '
               'json.loads and jsonParse, equal to the input, keys sorted, integral numbers without fraction, injective.'),
    dict(id='C15', technique='Hypothesis stateful (RuleBasedStateMachine) model-based testing against list/dict/str models with an aliasing heap',
         level='Rule-based state machine over a pool of aliased arrays/objects/strings issuing library calls from script text; after every step '
               'the result, every container and the aliasing partition must match the list/dict/str model; failure values and no mutation on failure.'),
    dict(id='C16', technique='differential testing against calendar arithmetic and zoneinfo across 8 process time zones',
         level='Generated calendar tuples, millisecond offsets and ISO strings in 8 time zones switched in-process: datetimeNew against calendar '
               'arithmetic, getters, (d+n)-d==n, ISO format denotes the same instant, parse(format(d))==d, invalid text gives null.'),
    dict(id='C17', technique='differential testing of generated include trees over a virtual file system against a reference resolver',
         level='Generated include trees (depth 4, fan-out 3) over a virtual file system with paths, URLs, system prefix, missing/throwing/broken '
               'files: fetch sequence, marker order, globals and error messages against a reference simulation.'),
    dict(id='C18', technique='metamorphic testing (apply the lint advice and re-run) + independent static analysis of labels/redefinitions',
         level='Generated programs and jump-level models: lint is pure/deterministic/total; renaming reported unused names and deleting reported '
               'unused labels/pointless statements preserves behaviour; unknown-label and redefinition warnings equal an independent analysis.'),
    dict(id='C19', technique='differential testing against a relational reference model + CSV typed round trip',
         level='Generated tables (duplicates, nulls, mixed types, colliding names, punctuation keys) through scripts: filter/sort/top/aggregate/'
               'join/calculated field against a relational reference model; typed CSV round trip including date-like invalid text.'),
    dict(id='C20', technique='exhaustive pairs of line lists + Hypothesis pairs, reconstruction oracle',
         level='All pairs of line lists of length <= 4 (quick) / <= 6 (thorough) over 3 letters plus generated pairs to 40 lines as arrays, LF/CRLF '
               'strings and chunk arrays: block shape and exact reconstruction of both inputs; all shipped include scripts parse, validate, lint clean and include.'),
]


def _built(pid):
    return os.path.exists(os.path.join(ROOT, 'pbt', 'checks', pid.lower() + '.py'))


CHECKS = []
NOT_APPLICABLE = []
for _c in _ALL:
    _c['note'] = TRUST
    if _built(_c['id']):
        CHECKS.append(_c)
    else:
        NOT_APPLICABLE.append({'property_id': _c['id'],
                               'reason': 'applicable to property-based testing (design in DESIGN.md section 5) but its check is not built yet, so it is not claimed'})
