#!/bin/sh
# Re-run every stored seeded change against its owning check (quick tier) and print one line each.
cd /verif
for d in seeded/*; do
  id=$(basename $d)
  prop=$(echo $id | cut -c1-3)
  out=$(timeout 1500 python3 tools/seedtest.py $d $id -- $prop 2>&1 | tail -1 | cut -c1-160)
  echo "$id $out"
done
