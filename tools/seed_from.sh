#!/bin/sh
# Like seed_all.sh, starting at the given stored seed id (alphabetical order): sh tools/seed_from.sh C09-agent6-2
cd /verif
start=$1
for d in seeded/*; do
  id=$(basename $d)
  if [ "$(printf '%s\n%s\n' "$start" "$id" | sort | head -1)" != "$start" ]; then continue; fi
  prop=$(echo $id | cut -c1-3)
  out=$(timeout 3000 python3 tools/seedtest.py $d $id -- $prop 2>&1 | tail -1 | cut -c1-160)
  echo "$id $out"
done
